"""M-manifest: reference evaluator for the ninja manifest language, written from doc/manual.asciidoc (lexer incl.
$-escapes, continuations, CRLF, comments, indentation; immediate expansion of file/build-level bindings; late
rule-variable expansion in the build's scope with lookup order build, rule, file, including file; include vs
subninja scoping of variables and rules; pools; defaults; canonicalisation; the legacy phony self-reference filter;
the documented rejections).  Ported from the design-phase spike (notes/spikes/mref.py)."""
import json, os, re, subprocess, sys, collections

VARNAME = re.compile(rb'[a-zA-Z0-9_.-]+')
SIMPLE = re.compile(rb'[a-zA-Z0-9_-]+')
RESERVED = {b'command', b'depfile', b'dyndep', b'description', b'deps', b'generator', b'pool', b'restat',
            b'rspfile', b'rspfile_content', b'msvc_deps_prefix'}
KEYWORDS = {b'build': 'BUILD', b'pool': 'POOL', b'rule': 'RULE', b'default': 'DEFAULT', b'include': 'INCLUDE', b'subninja': 'SUBNINJA'}

class ManifestError(Exception):
    def __init__(self, fname, line, msg, certain=True):
        Exception.__init__(self, "%s:%d: %s" % (fname, line, msg)); self.fname = fname; self.line = line; self.msg = msg
        self.certain = certain     # False: the manual does not say which line of a continued statement is reported
class FatalError(Exception): pass

def canon(path):
    """reference CanonicalizePath (POSIX)."""
    if not path: return path
    absolute = path.startswith(b'/')
    out = []
    for c in path.split(b'/'):
        if c == b'' or c == b'.': continue
        if c == b'..':
            if out and out[-1] != b'..': out.pop()
            else: out.append(b'..')
        else: out.append(c)
    r = b'/'.join(out)
    if absolute: return b'/' + r
    return r if r else b'.'

def shell_escape(s):
    if re.fullmatch(rb'[A-Za-z0-9_+\-./]*', s): return s
    return b"'" + s.replace(b"'", b"'\\''") + b"'"

class Env:
    def __init__(self, parent=None):
        self.b = {}; self.rules = {}; self.parent = parent
    def lookup(self, k):
        e = self
        while e is not None:
            if k in e.b: return e.b[k]
            e = e.parent
        return b''
    def lookup_rule(self, k):
        e = self
        while e is not None:
            if k in e.rules: return e.rules[k]
            e = e.parent
        return None

def evaluate(tokens, lookup):
    return b''.join(t[1] if t[0] == 'T' else lookup(t[1]) for t in tokens)

class UncertainCase(Exception):
    """the documented rules do not determine the outcome for this manifest: the case is skipped (and counted)"""


MAX_VER_DECLARED = [(0, 0)]    # highest ninja_required_version assigned so far in parse order, in any file


class Lexer:
    def __init__(self, fname, data):
        self.fname = fname; self.d = data + b'\0'; self.p = 0; self.last = 0
        self.ver = (0, 0); self.newline_checked = False
    def line_of(self, pos):
        return self.d.count(b'\n', 0, pos) + 1
    def error(self, msg, pos=None, certain=True):
        raise ManifestError(self.fname, self.line_of(self.last if pos is None else pos), msg, certain)
    def eat_ws(self):
        d = self.d
        while True:
            if d[self.p:self.p+1] == b' ':
                while d[self.p:self.p+1] == b' ': self.p += 1
            elif d[self.p:self.p+3] == b'$\r\n': self.p += 3
            elif d[self.p:self.p+2] == b'$\n': self.p += 2
            else: return
    def read_token(self):
        d = self.d
        while True:
            start = self.p
            q = start
            while d[q:q+1] == b' ': q += 1
            # longest match among the rules that can start with spaces
            if d[q:q+1] == b'#':
                nl = d.find(b'\n', q)
                nul = d.find(b'\0', q)
                if nl != -1 and nl < nul:
                    self.p = nl + 1; continue
                # comment without newline before EOF/NUL: not a comment
            if d[q:q+2] == b'\r\n': tok = 'NEWLINE'; end = q + 2
            elif d[q:q+1] == b'\n': tok = 'NEWLINE'; end = q + 1
            elif q > start: tok = 'INDENT'; end = q
            else:
                m = VARNAME.match(d, start)
                if m:
                    w = m.group(0); end = m.end()
                    tok = KEYWORDS.get(w, 'IDENT')
                elif d[start:start+1] == b'=': tok, end = 'EQUALS', start + 1
                elif d[start:start+1] == b':': tok, end = 'COLON', start + 1
                elif d[start:start+2] == b'|@': tok, end = 'PIPEAT', start + 2
                elif d[start:start+2] == b'||': tok, end = 'PIPE2', start + 2
                elif d[start:start+1] == b'|': tok, end = 'PIPE', start + 1
                elif d[start:start+1] == b'\0': tok, end = 'EOF', start + 1
                else: tok, end = 'ERROR', start + 1
            self.last = start; self.p = end
            if tok not in ('NEWLINE', 'EOF'): self.eat_ws()
            return tok
    def unread(self): self.p = self.last
    def peek(self, t):
        if self.read_token() == t: return True
        self.unread(); return False
    def describe_last_error(self):
        return "tabs are not allowed, use spaces" if self.d[self.last:self.last+1] == b'\t' else "lexing error"
    def expect(self, t, names):
        got = self.read_token()
        if got != t:
            hint = " ($ also escapes ':')" if t == 'COLON' else ""
            self.error("expected %s, got %s%s" % (names[t], names[got], hint))
    def read_ident(self):
        m = VARNAME.match(self.d, self.p)
        if not m:
            self.last = self.p; return None
        self.last = self.p; self.p = m.end(); self.eat_ws(); return m.group(0)
    def read_eval(self, path):
        d = self.d; toks = []
        def text(t):
            if toks and toks[-1][0] == 'T': toks[-1] = ('T', toks[-1][1] + t)
            else: toks.append(('T', t))
        while True:
            start = self.p
            c = d[start:start+1]
            m = re.compile(rb'[^$ :\r\n|\0]+').match(d, start)
            if m: text(m.group(0)); self.p = m.end(); continue
            if d[start:start+2] == b'\r\n':
                if path: self.p = start
                else: self.p = start + 2
                break
            if c in (b' ', b':', b'|', b'\n'):
                if path: self.p = start; break
                if c == b'\n': self.p = start + 1; break
                text(c); self.p = start + 1; continue
            if c == b'$':
                n = d[start+1:start+2]
                if n == b'$': text(b'$'); self.p = start + 2; continue
                if n == b' ': text(b' '); self.p = start + 2; continue
                if d[start+1:start+3] == b'\r\n' or n == b'\n':
                    self.p = start + (3 if n == b'\r' else 2)
                    while d[self.p:self.p+1] == b' ': self.p += 1
                    continue
                if n == b'{':
                    m = VARNAME.match(d, start + 2)
                    if m and d[m.end():m.end()+1] == b'}':
                        toks.append(('V', m.group(0))); self.p = m.end() + 1; continue
                m = SIMPLE.match(d, start + 1)
                if m: toks.append(('V', m.group(0))); self.p = m.end(); continue
                if n == b':': text(b':'); self.p = start + 2; continue
                if n == b'^':
                    if not self.newline_checked:
                        if self.ver < (1, 14) and MAX_VER_DECLARED[0] >= (1, 14):
                            # declared >= 1.14, but in another file (a parent or an earlier include): neither the manual
                            # nor the property says whether that declaration covers this file (ninja: a sibling's does,
                            # the including file's does not - an artefact of lexer reuse). Not compared.
                            raise UncertainCase("scope of ninja_required_version over included files")
                        if self.ver < (1, 14):
                            self.last = start  # (ninja does not update last_token_ here; line may differ)
                            self.error("using $^ escape requires specifying 'ninja_required_version' with version greater or equal 1.14", certain=False)
                        self.newline_checked = True
                    text(b'\n'); self.p = start + 2; continue
                if n not in (b'\n', b'\0', b''):   # "$". matches any char except newline
                    self.last = start; self.error("bad $-escape (literal $ must be written as $$)")
                if n == b'\0' or n == b'':
                    # "$" followed by NUL: '.' in re2c does not match NUL? it matches any except \n -> bad escape
                    self.last = start; self.error("bad $-escape (literal $ must be written as $$)")
                self.last = start; self.error("lexing error")
            if c == b'\0':
                self.last = start; self.error("unexpected EOF")
            if c == b'\r':
                self.last = start; self.error("lexing error")
            self.last = start; self.error("lexing error")
        self.last = start
        if path: self.eat_ws()
        return toks

NAMES = {'ERROR': 'lexing error', 'BUILD': "'build'", 'COLON': "':'", 'DEFAULT': "'default'", 'EQUALS': "'='", 'IDENT': 'identifier',
         'INCLUDE': "'include'", 'INDENT': 'indent', 'NEWLINE': 'newline', 'PIPE2': "'||'", 'PIPE': "'|'", 'PIPEAT': "'|@'",
         'POOL': "'pool'", 'RULE': "'rule'", 'SUBNINJA': "'subninja'", 'EOF': 'eof'}

def parse_version(v):
    def atoi(s):
        m = re.match(rb'\s*[+-]?\d+', s); return int(m.group(0)) if m else 0
    parts = v.split(b'.')
    return (atoi(parts[0]), atoi(parts[1]) if len(parts) > 1 else 0)

class State:
    def __init__(self):
        self.edges = []; self.pools = {b'': 0, b'console': 1}; self.defaults = []; self.producer = {}; self.nodes = set()
        self.root = Env(); self.root.rules[b'phony'] = {'name': b'phony', 'b': {}, 'phony': True}

class Parser:
    def __init__(self, state, files, env, phonycycle_err=False, depth=0):
        self.s = state; self.files = files; self.env = env; self.pc_err = phonycycle_err; self.depth = depth
    def load(self, fname, parent_lex=None):
        if fname not in self.files:
            msg = "loading '%s': No such file or directory" % fname.decode('utf-8', 'replace')
            if parent_lex: parent_lex.error(msg)
            raise ManifestError('', 0, msg)
        if self.depth > 150: raise RecursionError()
        self.parse(fname, self.files[fname])
    def parse_let(self, lx):
        k = lx.read_ident()
        if k is None: lx.error("expected variable name")
        lx.expect('EQUALS', NAMES)
        return k, lx.read_eval(False)
    def parse(self, fname, data):
        lx = Lexer(fname.decode('utf-8', 'replace'), data)
        # ninja: a manifest is read as a C string: content stops at the first NUL
        while True:
            t = lx.read_token()
            if t == 'POOL': self.parse_pool(lx)
            elif t == 'BUILD': self.parse_edge(lx)
            elif t == 'RULE': self.parse_rule(lx)
            elif t == 'DEFAULT': self.parse_default(lx)
            elif t == 'IDENT':
                lx.unread(); k, v = self.parse_let(lx)
                val = evaluate(v, self.env.lookup)
                if k == b'ninja_required_version':
                    fv = parse_version(val); lx.ver = fv
                    MAX_VER_DECLARED[0] = max(MAX_VER_DECLARED[0], tuple(fv[:2]))
                    if (1, 14) < fv[:2] if False else ((fv[0] > 1) or (fv[0] == 1 and fv[1] > 14)):
                        raise FatalError("version")
                self.env.b[k] = val
            elif t in ('INCLUDE', 'SUBNINJA'): self.parse_include(lx, t == 'SUBNINJA')
            elif t == 'ERROR': lx.error(lx.describe_last_error())
            elif t == 'EOF': return
            elif t == 'NEWLINE': pass
            else: lx.error("unexpected " + NAMES[t])
    def parse_pool(self, lx):
        name = lx.read_ident()
        if name is None: lx.error("expected pool name")
        lx.expect('NEWLINE', NAMES)
        if name in self.s.pools: lx.error("duplicate pool '%s'" % name.decode('utf-8', 'replace'))
        depth = -1
        while lx.peek('INDENT'):
            k, v = self.parse_let(lx)
            if k == b'depth':
                ds = evaluate(v, self.env.lookup)
                if not re.fullmatch(rb'-?\d+', ds) or int(ds) < 0 or int(ds) > 2**31 - 1: lx.error("invalid pool depth")
                depth = int(ds)
            else: lx.error("unexpected variable '%s'" % k.decode('utf-8', 'replace'))
        if depth < 0: lx.error("expected 'depth =' line")
        self.s.pools[name] = depth
    def parse_rule(self, lx):
        name = lx.read_ident()
        if name is None: lx.error("expected rule name")
        lx.expect('NEWLINE', NAMES)
        if name in self.env.rules: lx.error("duplicate rule '%s'" % name.decode('utf-8', 'replace'))
        rule = {'name': name, 'b': {}, 'phony': False}
        while lx.peek('INDENT'):
            k, v = self.parse_let(lx)
            if k in RESERVED: rule['b'][k] = v
            else: lx.error("unexpected variable '%s'" % k.decode('utf-8', 'replace'))
        if bool(rule['b'].get(b'rspfile')) != bool(rule['b'].get(b'rspfile_content')):
            lx.error("rspfile and rspfile_content need to be both specified")
        if not rule['b'].get(b'command'): lx.error("expected 'command =' line")
        self.env.rules[name] = rule
    def parse_default(self, lx):
        ev = lx.read_eval(True)
        if not ev: lx.error("expected target name")
        while True:
            path = evaluate(ev, self.env.lookup)
            if not path: lx.error("empty path")
            path = canon(path)
            if path not in self.s.nodes: lx.error("unknown target '%s'" % path.decode('utf-8', 'replace'))
            self.s.defaults.append(path)
            ev = lx.read_eval(True)
            if not ev: break
        lx.expect('NEWLINE', NAMES)
    def read_paths(self, lx):
        out = []
        while True:
            ev = lx.read_eval(True)
            if not ev: return out
            out.append(ev)
    def parse_edge(self, lx):
        outs = self.read_paths(lx); n_imp_out = 0
        if lx.peek('PIPE'):
            io = self.read_paths(lx); n_imp_out = len(io); outs += io
        if not outs: lx.error("expected path")
        lx.expect('COLON', NAMES)
        rn = lx.read_ident()
        if rn is None: lx.error("expected build command name")
        rule = self.env.lookup_rule(rn)
        if rule is None: lx.error("unknown build rule '%s'" % rn.decode('utf-8', 'replace'))
        ins = self.read_paths(lx); n_exp = len(ins); n_imp = n_oo = 0
        if lx.peek('PIPE'):
            x = self.read_paths(lx); n_imp = len(x); ins += x
        if lx.peek('PIPE2'):
            x = self.read_paths(lx); n_oo = len(x); ins += x
        vals = []
        if lx.peek('PIPEAT'): vals = self.read_paths(lx)
        lx.expect('NEWLINE', NAMES)
        has_own = False; eenv = self.env
        if lx.peek('INDENT'):
            has_own = True; eenv = Env(self.env)
            while True:
                k, v = self.parse_let(lx)
                eenv.b[k] = evaluate(v, self.env.lookup)     # expanded immediately, in the enclosing scope
                if not lx.peek('INDENT'): break
        edge = {'rule': rule, 'env': eenv, 'own': has_own, 'outs': [], 'ins': [], 'vals': [], 'n_imp_out': n_imp_out}
        pool = self.edge_binding(edge, b'pool')
        if pool:
            if pool not in self.s.pools: lx.error("unknown pool name '%s'" % pool.decode('utf-8', 'replace'))
        edge['pool'] = pool
        for ev in outs:
            p = evaluate(ev, eenv.lookup)
            if not p: lx.error("empty path")
            p = canon(p)
            if p in self.s.producer:
                if self.s.producer[p] is edge: lx.error("%s is defined as an output multiple times" % p.decode('utf-8', 'replace'))
                lx.error("multiple rules generate %s" % p.decode('utf-8', 'replace'))
            self.s.producer[p] = edge; edge['outs'].append(p); self.s.nodes.add(p)
        kinds = ['exp'] * n_exp + ['imp'] * n_imp + ['oo'] * n_oo
        for ev, k in zip(ins, kinds):
            p = evaluate(ev, eenv.lookup)
            if not p: lx.error("empty path")
            p = canon(p); edge['ins'].append((p, k)); self.s.nodes.add(p)
        for ev in vals:
            p = evaluate(ev, eenv.lookup)
            if not p: lx.error("empty path")
            p = canon(p); edge['vals'].append(p); self.s.nodes.add(p)
        self.s.edges.append(edge)
        if not self.pc_err and rule['phony'] and len(edge['outs']) == 1 and n_imp_out == 0 and n_imp == 0:
            o = edge['outs'][0]
            edge['ins'] = [(p, k) for (p, k) in edge['ins'] if p != o]
            if QUIRK_D6:
                n = len(edge['ins'])
                first_oo = n - n_oo
                edge['ins'] = [(p, ('oo' if (first_oo >= 0 and i >= first_oo) else 'exp')) for i, (p, k) in enumerate(edge['ins'])]
        dd = self.edge_binding(edge, b'dyndep', escape=False)
        edge['dyndep_node'] = None
        if dd:
            dd = canon(dd); self.s.nodes.add(dd)
            if dd not in [p for p, _ in edge['ins']]: lx.error("dyndep '%s' is not an input" % dd.decode('utf-8', 'replace'))
            edge['dyndep_node'] = dd
    def parse_include(self, lx, new_scope):
        ev = lx.read_eval(True)
        path = evaluate(ev, self.env.lookup)
        sub = Parser(self.s, self.files, Env(self.env) if new_scope else self.env, self.pc_err, self.depth + 1)
        sub.load(path, lx)
        lx.expect('NEWLINE', NAMES)
    # ---- binding evaluation per the manual: specials, build-level, rule-level (late), file-level, parents
    def edge_binding(self, edge, key, escape=True, stack=None):
        return edge_binding(edge, key, escape, stack)

def edge_binding(edge, key, escape=True, stack=None):
    if key in (b'in', b'in_newline'):
        names = [p for p, k in edge['ins'] if k == 'exp']
        sep = b' ' if key == b'in' else b'\n'
        return sep.join(shell_escape(n) if escape else n for n in names)
    if key == b'out':
        n = len(edge['outs']) - edge['n_imp_out']
        return b' '.join(shell_escape(x) if escape else x for x in edge['outs'][:n])
    stack = stack or []
    if key in stack: raise FatalError("cycle in rule variables")
    env = edge['env']
    if edge['own'] and key in env.b: return env.b[key]
    if QUIRK_D13 and not edge['own'] and key in env.b: return env.b[key]
    rb = edge['rule']['b'].get(key)
    if rb is not None:
        return evaluate(rb, lambda k: edge_binding(edge, k, escape, stack + [key]))
    e = env.parent if edge['own'] else env
    return e.lookup(key) if e is not None else b''

QUIRK_D13 = False   # counterfactual switches, used only to attribute a disagreement to a listed finding
QUIRK_D6 = False
KEYS = [b'command', b'description', b'depfile', b'deps', b'dyndep', b'generator', b'restat', b'rspfile', b'rspfile_content', b'msvc_deps_prefix', b'pool']

def reference(files, main=b'build.ninja', phonycycle_err=False):
    s = State()
    MAX_VER_DECLARED[0] = (0, 0)
    try:
        Parser(s, files, s.root, phonycycle_err).load(main)
        edges = []
        for e in s.edges:
            b = {k.decode(): edge_binding(e, k).decode('utf-8', 'replace') for k in KEYS}
            b['depfile_raw'] = edge_binding(e, b'depfile', escape=False).decode('utf-8', 'replace')
            b['rspfile_raw'] = edge_binding(e, b'rspfile', escape=False).decode('utf-8', 'replace')
            b['dyndep_raw'] = edge_binding(e, b'dyndep', escape=False).decode('utf-8', 'replace')
            edges.append({'rule': e['rule']['name'].decode('utf-8', 'replace'), 'pool': e['pool'].decode('utf-8', 'replace'),
                          'outs': [o.decode('utf-8', 'replace') for o in e['outs']], 'implicit_outs': e['n_imp_out'],
                          'ins': [[p.decode('utf-8', 'replace'), k] for p, k in e['ins']], 'validations': [v.decode('utf-8', 'replace') for v in e['vals']],
                          'bindings': b, 'dyndep_node': e['dyndep_node'].decode('utf-8', 'replace') if e['dyndep_node'] else None})
        return {'ok': True, 'edges': edges, 'pools': {k.decode('utf-8', 'replace'): v for k, v in s.pools.items()},
                'defaults': [d.decode('utf-8', 'replace') for d in s.defaults]}
    except ManifestError as ex:
        return {'ok': False, 'err': str(ex), 'file': ex.fname, 'line': ex.line, 'line_certain': ex.certain}
    except FatalError as ex:
        return {'fatal': str(ex)}
    except RecursionError:
        return {'recursion': True}
    except UncertainCase as ex:
        return {'uncertain': str(ex)}

def compare(files, ninja, phonycycle_err=False, quirk_d6=False, quirk_d13=False):
    """ninja: callable(files, phonycycle_err) -> dump dict | {'died':..} | {'fatal':..}"""
    global QUIRK_D6, QUIRK_D13
    QUIRK_D6, QUIRK_D13 = quirk_d6, quirk_d13
    r = reference(files, phonycycle_err=phonycycle_err); n = ninja(files, phonycycle_err)
    if 'recursion' in r or 'uncertain' in r or n.get('skip'): return None, r, n
    if 'died' in n: return 'ninja died', r, n
    if 'fatal' in r or 'fatal' in n:
        return (None if ('fatal' in r and 'fatal' in n) else 'fatal mismatch'), r, n
    if r['ok'] != n['ok']: return 'accept/reject mismatch', r, n
    if not r['ok']:
        # compare "file:line:" prefix
        m = re.match(r'(.*?):(\d+): ', n['err'])
        if not m: return ('no file:line in diagnostic' if r['file'] else None), r, n
        if m.group(1) != r['file'] or (int(m.group(2)) != r['line'] and r.get('line_certain', True)): return 'diagnostic location mismatch', r, n
        return None, r, n
    for k in ('pools', 'defaults'):
        if r[k] != n[k]: return k + ' mismatch', r, n
    if len(r['edges']) != len(n['edges']): return 'edge count mismatch', r, n
    for i, (a, b) in enumerate(zip(r['edges'], n['edges'])):
        for k in a:
            if k == 'bindings':
                for bk in a[k]:
                    if a[k][bk] != b[k].get(bk):
                        return 'edge %d (%s) binding %s: ref=%r ninja=%r' % (i, ' '.join(a['outs']), bk, a[k][bk], b[k].get(bk)), r, n
                continue
            if a[k] != b[k]: return 'edge %d (%s) field %s: ref=%r ninja=%r' % (i, ' '.join(a['outs']), k, a[k], b[k]), r, n
    return None, r, n

