"""Driver for libFuzzer targets: N independent processes with derived seeds, counters read back from the
target, crash artefacts replayed 3x before they count."""
import glob, json, os, shutil, struct, subprocess, time
from . import build, common


def _replay(exe, path, env, times=3, timeout=120):
    fails = 0
    last = ""
    for _ in range(times):
        try:
            p = subprocess.run([exe, path], env=env, capture_output=True, text=True, errors="replace", timeout=timeout)
            if p.returncode != 0:
                fails += 1
                last = p.stderr[-3000:]
        except subprocess.TimeoutExpired:
            fails += 1
            last = "timeout after %ds" % timeout
    return fails, last


def run_target(target, runs, max_len, workers, seeds_dir=None, dict_file=None, extra=(), env_extra=None,
               hang_is_violation=False, per_input_timeout=25, empty_corpus_workers=0, len_control=None):
    """Returns (common.Result, violations[list of (bytes, why)])"""
    exe = build.program(target, "fuzz", fuzzer=True)
    root = common.scratch_root()
    procs = []
    t0 = time.time()
    try:
        for w in range(workers):
            wd = os.path.join(root, "w%d" % w)
            os.makedirs(os.path.join(wd, "corpus"))
            os.makedirs(os.path.join(wd, "art"))
            if seeds_dir and os.path.isdir(seeds_dir) and w >= empty_corpus_workers:
                for f in sorted(os.listdir(seeds_dir)):
                    if os.path.isfile(os.path.join(seeds_dir, f)):
                        shutil.copy(os.path.join(seeds_dir, f), os.path.join(wd, "corpus", f))
            env = dict(os.environ, VERIF_STATS_FILE=os.path.join(wd, "stats.json"),
                       VERIF_FAIL_FILE=os.path.join(wd, "fail.txt"),
                       ASAN_OPTIONS="detect_leaks=0:abort_on_error=0:allocator_may_return_null=1",
                       UBSAN_OPTIONS="print_stacktrace=1:halt_on_error=1")
            if env_extra:
                env.update(env_extra)
            args = [exe, os.path.join(wd, "corpus"), "-runs=%d" % runs, "-seed=%d" % common.sub_seed(target, w),
                    "-max_len=%d" % max_len, "-artifact_prefix=" + os.path.join(wd, "art") + "/",
                    "-detect_leaks=0", "-timeout=%d" % per_input_timeout, "-rss_limit_mb=6000", "-print_final_stats=1",
                    "-reload=0", "-use_value_profile=1"] + list(extra)
            if len_control is not None:
                args.append("-len_control=%d" % len_control)
            if dict_file:
                args.append("-dict=" + dict_file)
            log = open(os.path.join(wd, "log"), "w")
            procs.append((w, wd, env, subprocess.Popen(args, env=env, stdout=log, stderr=log, cwd=wd)))
        res = common.Result()
        hashes = set()
        violations = []
        for w, wd, env, p in procs:
            p.wait()
            st = {}
            try:
                st = json.load(open(os.path.join(wd, "stats.json")))
            except Exception:
                pass
            res.evaluations += st.get("execs", 0)
            for k, v in st.get("classes", {}).items():
                res.classes[k] += v
            for s in st.get("samples", []):
                if len(res.samples) < 8:
                    res.samples.append(s)
            try:
                raw = open(os.path.join(wd, "stats.json.hashes"), "rb").read()
                hashes.update(struct.unpack("<%dQ" % (len(raw) // 8), raw[:len(raw) // 8 * 8]))
            except Exception:
                pass
            arts = sorted(glob.glob(os.path.join(wd, "art", "*")))
            for a in arts[:2]:
                if len(violations) >= 2:
                    break
                kind = os.path.basename(a).split("-")[0]
                if kind == "crash" or (kind == "timeout" and hang_is_violation):
                    fails, last = _replay(exe, a, env, timeout=per_input_timeout + 10)
                    why = ""
                    try:
                        why = open(os.path.join(wd, "fail.txt")).read()
                    except Exception:
                        pass
                    if fails == 3:
                        violations.append((open(a, "rb").read(), "%s %s: %s\n%s" % (target, kind, why, last[-1500:])))
                    else:
                        res.notes.append("%s: artefact %s failed only %d/3 replays (ignored as flaky)" % (target, os.path.basename(a), fails))
                else:
                    res.extra["load_noise_" + kind] += 1
            if p.returncode != 0 and not arts:
                tail = open(os.path.join(wd, "log"), errors="replace").read()[-1500:]
                res.notes.append("%s worker %d exited %d without artefact: %s" % (target, w, p.returncode, tail))
        res.nontrivial = set("%s:%x" % (target, h) for h in hashes)
        res.extra["wall_" + target] = int(time.time() - t0)
        return res, violations
    finally:
        for _, _, _, p in procs:
            if p.poll() is None:
                p.kill()
        shutil.rmtree(root, ignore_errors=True)
