"""Client for the probe server (cxx/probe.cc)."""
import json, os, shutil, subprocess, tempfile
from . import build, common


class ProbeDied(Exception):
    """ninja code crashed / exited / hung inside a request (this is a *result* for most checks)."""

    def __init__(self, died, stderr, partial):
        Exception.__init__(self, "probe child died: %s\n%s" % (died, stderr[-3000:]))
        self.died, self.stderr, self.partial = died, stderr, partial

    def is_fatal_exit(self):
        return "ninja: fatal:" in self.stderr and self.died == {"exit": 1}

    def describe(self):
        return "died=%s stderr=%s" % (json.dumps(self.died), self.stderr[-1500:])


class Probe:
    def __init__(self, variant="san"):
        self.exe = build.program("probe", variant)
        self.env = dict(os.environ, ASAN_OPTIONS="detect_leaks=0:abort_on_error=0:exitcode=98:allocator_may_return_null=1",
                        UBSAN_OPTIONS="print_stacktrace=1:halt_on_error=1:exitcode=97")
        self.p = None
        self.scratch = common.scratch_root()
        self._n = 0
        self.start()

    def start(self):
        self.p = subprocess.Popen([self.exe], stdin=subprocess.PIPE, stdout=subprocess.PIPE, env=self.env, cwd=self.scratch)

    def close(self):
        try:
            if self.p:
                self.p.stdin.close()
                self.p.wait(timeout=5)
        except Exception:
            try:
                self.p.kill()
            except Exception:
                pass
        shutil.rmtree(self.scratch, ignore_errors=True)

    def __enter__(self):
        return self

    def __exit__(self, *a):
        self.close()

    def newdir(self):
        self._n += 1
        d = os.path.join(self.scratch, "d%d" % self._n)
        os.makedirs(d)
        return d

    def rmdir(self, d):
        shutil.rmtree(d, ignore_errors=True)

    def request_all(self, req, timeout_ms=20000):
        """Returns list of result objects; raises ProbeDied if the child ended abnormally."""
        req = dict(req, timeout_ms=timeout_ms)
        line = (json.dumps(req) + "\n").encode()
        try:
            self.p.stdin.write(line)
            self.p.stdin.flush()
        except BrokenPipeError:
            raise RuntimeError("probe server is gone")
        results = []
        while True:
            l = self.p.stdout.readline()
            if not l:
                raise RuntimeError("probe server closed its pipe")
            if l.startswith(b"R "):
                try:
                    results.append(json.loads(l[2:]))
                except ValueError:
                    pass   # a truncated line from a dying child
            elif l.startswith(b"E "):
                end = json.loads(l[2:])
                if end["died"] is not None:
                    raise ProbeDied(end["died"], end.get("stderr", ""), results)
                self.last_stderr = end.get("stderr", "")
                return results

    def request(self, req, timeout_ms=20000):
        r = self.request_all(req, timeout_ms)
        if len(r) != 1:
            raise RuntimeError("expected exactly one result, got %d: %s" % (len(r), str(r)[:300]))
        return r[0]
