"""Reference models written from the manual and the property texts (not from the C++).

Graph representation (shared with the generators and both engines):
  g = {'srcs': [...], 'pools': {name: depth},
       'edges': [ {'outs': [explicit..], 'iouts': [implicit outs], 'phony': bool,
                   'exp': [...], 'imp': [...], 'oo': [...], 'vals': [...],
                   'restat': bool, 'generator': bool, 'deps': ''|'gcc'|'depfile'|'msvc',
                   'hidden': [...], 'variant': 'v0', 'pool': ''|name, 'rsp': None|str,
                   'dd': None | path of its dyndep file, ...} ]}
An edge is identified by its first output (key).
"""
import copy


def fnv(s):
    h = 1469598103934665603
    for c in s.encode("utf-8", "surrogateescape"):
        h ^= c
        h = (h * 1099511628211) & 0xFFFFFFFFFFFFFFFF
    return "%016x" % h


def key(e):
    return (e['outs'] + e.get('iouts', []))[0]


def all_outs(e):
    return e['outs'] + e.get('iouts', [])


def producer_map(g):
    p = {}
    for e in g['edges']:
        for o in all_outs(e) + (list(e.get('dd_outs', [])) if e.get('dd') else []):
            p[o] = e
    return p


def depfile_path(e):
    # e['dfdir']: the depfile lives in a directory of its own (nothing else creates it: ninja has to, before the command starts)
    if e.get('deps') not in ('gcc', 'depfile'):
        return None
    if e.get('dfdir') == 'nested':
        # a directory below the first output's own directory (obj/foo.o -> obj/.deps/foo.o.d)
        d, _, b = key(e).rpartition("/")
        return (d + "/" if d else "") + ".deps/" + b + ".d"
    return e.get('dfdir', '') + key(e) + ".d"


def rspfile_path(e):
    # e['rspdir']: a directory nothing creates (ninja does not create it either: writing the response file fails, the
    # statement cannot be started)
    return e.get('rspdir', '') + key(e) + ".rsp" if e.get('rsp') is not None else None


def is_restat(e):
    """restat from the manifest or added by the statement's dyndep file"""
    return bool(e.get('restat') or (e.get('dd') and e.get('dd_restat')))


def dd_inputs(g, e):
    """implicit inputs that a (valid, loaded) dyndep file adds to e"""
    return list(e.get('dd_ins', [])) if e.get('dd') else []


def dd_outs(g, e):
    return list(e.get('dd_outs', [])) if e.get('dd') else []


def _spell(path, style):
    """a non-canonical spelling of the same file (same table as graphs.spell)"""
    if style == 1:
        return "./" + path
    if style == 2:
        return "inc/../" + path
    if style == 3:
        d, _, b = path.rpartition("/")
        return (d + "//" + b) if d else "./././" + path
    return path


def dyndep_text(g, dd):
    """the (valid) content of dyndep file dd for graph g: one statement per build statement bound to it"""
    L = ["ninja_dyndep_version = 1\n"]
    for e in g['edges']:
        if e.get('dd') != dd:
            continue
        # paths in a dyndep file are canonicalised like paths in the manifest: the file may spell them ./x, d/../x, d//x
        sp = lambda n: _spell(n, e.get('dd_spell', 0))
        l = "build %s" % sp(key(e))
        if e.get('dd_outs'):
            l += " | " + " ".join(sp(o) for o in e['dd_outs'])
        l += ": dyndep"
        if e.get('dd_ins'):
            l += " | " + " ".join(sp(i) for i in e['dd_ins'])
        L.append(l + "\n")
        if e.get('dd_restat'):
            L.append("  restat = 1\n")
    return "".join(L)


def true_reads(g, e, phony_outs):
    """Files whose content the command of e reads (order matters for the content hash): declared explicit and
    implicit inputs, dyndep-declared implicit inputs, hidden reads. Names that are only phony aliases are not files; an
    alias among the inputs stands for the (non order-only) files it groups, transitively."""
    seen = []
    prod = None
    todo = list(e['exp'] + e['imp'] + dd_inputs(g, e) + e.get('hidden', []))
    visited = set()
    while todo:
        r = todo.pop(0)
        if r in phony_outs:
            # an alias named as a (non order-only) input stands for the files behind it: `build out: cc src | hdrs` reads
            # the headers that `build hdrs: phony gen.h` groups
            if r not in visited:
                visited.add(r)
                if prod is None:
                    prod = producer_map(g)
                pe = prod.get(r)
                if pe is not None:
                    todo = list(pe['exp'] + pe['imp']) + todo
            continue
        if r in seen:
            continue
        seen.append(r)
    return seen


def phony_outs(g):
    return set(o for e in g['edges'] if e['phony'] for o in all_outs(e))


# ---------------------------------------------------------------------------------------------- M-content
class Content:
    """expected(node): content a from-scratch build of the current sources and manifest produces."""

    def __init__(self, g, files, frozen=()):
        """frozen: keys of statements whose outputs are taken from disk as they are (counterfactual worlds only)"""
        self.g, self.files = g, files
        self.prod = producer_map(g)
        self.ph = phony_outs(g)
        self.memo = {}
        self.frozen = set(frozen)

    def edge_hash(self, e, read_content):
        acc = key(e) + "|" + content_variant(e) + "|"
        if e.get('rsp') is not None:
            acc += "rsp=" + rsp_content(self.g, e) + "|"
        for r in true_reads(self.g, e, self.ph):
            c = read_content(r)
            acc += ("<missing>" if c is None else c) + ","
        return fnv(acc)

    def expected(self, node, stack=()):
        if node in self.memo:
            return self.memo[node]
        p = self.prod.get(node)
        if p is None:
            v = self.files[node]['c'] if node in self.files else None
            self.memo[node] = v
            return v
        if p['phony']:
            self.memo[node] = None
            return None
        if key(p) in self.frozen:
            v = self.files[node]['c'] if node in self.files else None
            self.memo[node] = v
            return v
        if key(p) in stack:
            return None
        h = self.edge_hash(p, lambda r: self.expected(r, stack + (key(p),)))
        over = p.get('content_override', {})
        for o in all_outs(p) + dd_outs(self.g, p):
            if o in over:
                sel = self.expected(over[o]['by'], stack + (key(p),))
                self.memo[o] = over[o]['table'].get(sel, over[o].get('default', ''))
            else:
                self.memo[o] = h + "@" + o
        return self.memo[node]


def content_variant(e):
    """The command-line variant is part of what a command computes - except for generator statements, whose
    command line may change without the output being considered affected (documented exemption)."""
    return '-' if e.get('generator') else e['variant']


def rsp_content(g, e):
    """evaluated rspfile_content: '<tag> $in_newline'-like text; we make it a pure function of the spec"""
    return "%s %s" % (e['rsp'], " ".join(e['exp']))


def closure_edges(g, targets, files=None, with_hidden=True):
    """edges needed for targets through every input kind, hidden reads (true deps), dyndep inputs and validations"""
    prod = producer_map(g)
    seen, order = set(), []
    todo = list(targets)
    vals = []

    def visit(n):
        e = prod.get(n)
        if e is None or key(e) in seen:
            return
        seen.add(key(e))
        vals.extend(e.get('vals', []))
        ins = e['exp'] + e['imp'] + e['oo'] + dd_inputs(g, e) + (e.get('hidden', []) if with_hidden else [])
        if e.get('dd'):
            ins = ins + [e['dd']]
        for i in ins:
            visit(i)
        order.append(e)

    for t in todo:
        visit(t)
    i = 0
    while i < len(vals):
        visit(vals[i])
        i += 1
    return order


# ---------------------------------------------------------------------------------------------- M-make
class Make:
    """Documented dirty rules over (graph, disk mtimes, the model's own record of what successful commands
    logged). plan() predicts the exact set of commands a failure-free build starts.

    Counterfactual switches (used only to *attribute* a disagreement to a listed known finding):
      cf_dirty_ignores_discovered  an edge that is dirty for a reason visible without its discovered inputs does
                                   not see those inputs in this invocation (D1/D2)
      cf_trust_after_failed_touch  a failed command that rewrote its outputs is trusted if an older record is
                                   still valid (D8)
      cf_dyndep_restat_late        a statement whose 'restat' comes from a dyndep file that is (re)produced in this
                                   invocation is judged without it by the initial scan and stays wanted (D18, the
                                   behaviour of a binary built without asserts)
    """

    def __init__(self):
        self.rec = {}        # out -> (cmdsig, time)
        self.deprec = {}     # out -> (mtime, [paths])   deps=gcc|msvc, one entry per output
        self.dfile = {}      # depfile path -> [paths]   last content written (depfile mode keeps the file)
        self.failed = set()  # edge keys whose last command failed and that have not succeeded since

    def clone(self):
        return copy.deepcopy(self)

    @staticmethod
    def cmdsig(g, e):
        # what the command line is made of: the variant and $in/$out (a statement that is removed and added again under
        # the same output name may come back with other inputs), plus the rspfile content
        return (e['variant'] + "|in=" + " ".join(e['exp']) + "|out=" + " ".join(e['outs'])
                + ("|" + rsp_content(g, e) if e.get('rsp') is not None else ""))

    def discovered(self, g, e, files):
        """(valid, [paths]) discovered inputs ninja has on record for e; valid False => deps info missing => must run"""
        if e['phony'] or not e.get('deps'):
            return True, []
        o0 = key(e)
        if e['deps'] in ('gcc', 'msvc'):
            dr = self.deprec.get(o0)
            if dr is None:
                return False, []
            if o0 in files and files[o0]['m'] > dr[0]:
                return False, []
            return True, list(dr[1])
        df = depfile_path(e)
        if df not in files or df not in self.dfile:
            return False, []
        return True, list(self.dfile[df])

    def plan(self, g, files, targets, cf_dirty_ignores_discovered=False, cf_trust_after_failed_touch=False, assume_flip=(),
             cf_dyndep_restat_late=False, cf_ignore_only=None):
        """-> dict(run=[keys in a valid order], error=None|str, why={key: reason}, order=[(a,b): a must finish before b])"""
        prod = producer_map(g)
        why = {}
        state = {}     # key -> dict(dirty=bool, must=bool(own reason), ready=bool)
        node_dirty = {}    # node -> True if it will be (or must be considered) rewritten / is dirty
        node_mtime = {}    # effective mtime for phony pass-through
        order = []
        err = [None]
        instack = []
        validations = []
        disc_used = {}
        ignored = set()     # edges whose valid discovered inputs were ignored by the counterfactual switch
        trusted = set()     # edges trusted only because of cf_trust_after_failed_touch
        late = set()        # edges dirty only because cf_dyndep_restat_late judged them without restat

        def mtime(n):
            # (an alias stands for the files behind it even when a file or directory happens to carry its name: the newest
            # of them all counts)
            if n in files:
                return max(files[n]['m'], node_mtime.get(n, 0))
            return node_mtime.get(n, 0)

        def visit(n, dependent):
            e = prod.get(n)
            if e is None:
                return
            k = key(e)
            if k in state:
                return
            if k in instack:
                err[0] = err[0] or "cycle"
                return
            instack.append(k)
            validations.extend(e.get('vals', []))
            ins_no = []
            for i in e['exp'] + e['imp'] + dd_inputs(g, e):
                if i not in ins_no:
                    ins_no.append(i)
            ins_oo = [i for i in e['oo'] + ([e['dd']] if e.get('dd') else []) if i not in ins_no]
            for i in ins_no + ins_oo:
                visit(i, k)
            dirty, reason = False, None
            # -- reasons visible without discovered inputs
            for i in ins_no:
                if prod.get(i) is None and i not in files:
                    dirty, reason = True, 'source %s missing' % i
                elif node_dirty.get(i):
                    dirty, reason = True, 'input %s dirty' % i
            m = max([mtime(i) for i in ins_no if (i in files or i in node_mtime)] or [0])
            own, own_reason = self.own_dirty(g, e, files, m, cf_trust_after_failed_touch)
            if (cf_dyndep_restat_late and not own and e.get('dd') and e.get('dd_restat') and not e.get('restat')
                    and node_dirty.get(e['dd'])):
                own, own_reason = self.own_dirty(g, e, files, m, cf_trust_after_failed_touch, no_restat=True)
                if own:
                    late.add(k)
                    own_reason += ' (judged before its dyndep file added restat)'
            valid, disc = self.discovered(g, e, files)
            pre_dirty = dirty or own
            # cf_ignore_only: restrict the D1 counterfactual to these statements (each must still be dirty for a reason
            # visible without its discovered inputs): which of the eligible statements really skipped its discovered
            # inputs depends on what ninja knew when it first scanned them (dyndep files not loaded yet), which this
            # model does not track
            use_disc = valid and not (cf_dirty_ignores_discovered and pre_dirty and (cf_ignore_only is None or k in cf_ignore_only))
            disc = [d for d in disc if d not in ins_no]
            if valid and disc and not use_disc:
                ignored.add(k)
            if cf_trust_after_failed_touch and k in self.failed and not own:
                trusted.add(k)
            if not valid:
                own, own_reason = True, own_reason or 'deps info missing'
            if use_disc:
                for d in disc:
                    visit(d, k)
                for d in disc:
                    if prod.get(d) is None and d not in files:
                        own, own_reason = True, own_reason or 'discovered dep %s vanished' % d
                    elif node_dirty.get(d):
                        dirty, reason = True, reason or 'discovered input %s dirty' % d
                m2 = max([m] + [mtime(d) for d in disc if (d in files or d in node_mtime)])
                if m2 != m and not own:
                    own, own_reason = self.own_dirty(g, e, files, m2, cf_trust_after_failed_touch)
                    if (cf_dyndep_restat_late and not own and e.get('dd') and e.get('dd_restat') and not e.get('restat')
                            and node_dirty.get(e['dd'])):
                        # the same "judged before its dyndep file added restat" test with the discovered inputs counted
                        own, own_reason = self.own_dirty(g, e, files, m2, cf_trust_after_failed_touch, no_restat=True)
                        if own:
                            late.add(k)
                            own_reason += ' (judged before its dyndep file added restat)'
                m = m2
                disc_used[k] = disc
            else:
                disc_used[k] = []
            if e['phony']:
                if not e['exp'] and not e['imp'] and not e['oo'] and not e.get('vals') and key(e) not in files:
                    dirty, reason = True, 'phony without inputs, file missing'
                for o in all_outs(e):
                    node_dirty[o] = dirty
                    node_mtime[o] = m
                state[k] = dict(dirty=dirty, must=dirty, m=m, reason=reason)
            else:
                state[k] = dict(dirty=dirty or own, must=own, m=m, reason=own_reason if own else reason)
                for o in all_outs(e) + dd_outs(g, e):
                    node_dirty[o] = dirty or own
            why[k] = state[k]['reason']
            instack.pop()
            order.append(e)

        roots = list(targets)
        for t in roots:
            visit(t, None)
        i = 0
        while i < len(validations):
            visit(validations[i], None)
            i += 1
        if err[0]:
            return dict(run=[], error=err[0], why=why, disc=disc_used, ignored=ignored, trusted=trusted, late=late)

        # -- readiness walk as the plan does it: from the roots through edges that are not ready
        ready = {}

        def is_ready(k):
            if k in ready:
                return ready[k]
            e = next(x for x in g['edges'] if key(x) == k)
            r = not state[k]['dirty']
            if e['phony'] and not (e['exp'] or e['imp'] or e['oo']) and state[k]['dirty']:
                r = True     # phony without inputs has nothing to do
            for i in e['exp'] + e['imp'] + e['oo'] + dd_inputs(g, e) + ([e['dd']] if e.get('dd') else []) + disc_used.get(k, []):
                pe = prod.get(i)
                if pe is not None and key(pe) in state and not is_ready(key(pe)):
                    r = False
            ready[k] = r
            return r

        missing = []
        reached = set()

        def walk(n, dependent):
            e = prod.get(n)
            if e is None:
                return
            k = key(e)
            if k not in state or is_ready(k) or k in reached:
                return
            reached.add(k)
            ins = e['exp'] + e['imp'] + dd_inputs(g, e) + disc_used.get(k, [])
            for i in ins + e['oo'] + ([e['dd']] if e.get('dd') else []):
                if prod.get(i) is None and i not in files and i not in disc_used.get(k, []):
                    missing.append((i, n))
                walk(i, n)

        for t in roots + validations:
            if prod.get(t) is None and t not in files:
                missing.append((t, None))
            walk(t, None)
        if missing:
            return dict(run=[], error="missing:%s" % missing[0][0], why=why, disc=disc_used, missing=missing, ignored=ignored, trusted=trusted, late=late)

        # -- which dirty edges really run: own reason, or an input is actually rewritten by an edge that runs
        runs = []
        rewritten = {}
        cont = Content(g, files, frozen=trusted)
        for e in order:
            k = key(e)
            s = state[k]
            if e['phony'] and s['dirty'] and s['reason'] == 'phony without inputs, file missing':
                for o in all_outs(e):
                    rewritten[o] = True     # the documented always-dirty case
                continue
            if k not in reached:
                for o in all_outs(e) + dd_outs(g, e):
                    rewritten[o] = False
                continue
            ins = []
            for i in e['exp'] + e['imp'] + dd_inputs(g, e) + disc_used.get(k, []):
                if i not in ins:
                    ins.append(i)
            triggered = any(rewritten.get(i) for i in ins)
            if e['phony']:
                for o in all_outs(e):
                    rewritten[o] = triggered or (s['dirty'] and s['reason'] == 'phony without inputs, file missing')
                continue
            go = s['must'] or triggered or any(prod.get(i) is None and i not in files for i in ins)
            if not go:
                for o in all_outs(e) + dd_outs(g, e):
                    rewritten[o] = False
                continue
            runs.append(k)
            for o in all_outs(e) + dd_outs(g, e):
                same = is_restat(e) and o in files and files[o]['c'] == cont.expected(o)
                if is_restat(e) and o in files and k in assume_flip:
                    same = not same
                rewritten[o] = not same
        return dict(run=runs, error=None, why=why, disc=disc_used, reached=reached, ignored=ignored, trusted=trusted, late=late)

    def own_dirty(self, g, e, files, newest_input, cf_trust=False, no_restat=False):
        """dirt that comes from the statement's own outputs/records given the newest non-order-only input time"""
        if e['phony']:
            return False, None
        if key(e) in self.failed and not cf_trust:
            return True, 'last command failed'
        sig = self.cmdsig(g, e)
        for o in all_outs(e) + dd_outs(g, e):
            if o not in files:
                return True, 'output %s missing' % o
            r = self.rec.get(o)
            if not (is_restat(e) and not no_restat and r) and files[o]['m'] < newest_input:
                return True, 'output %s older than input' % o
            if r is None:
                if not e['generator']:
                    return True, 'no record for %s' % o
                continue
            if r[0] != sig and not e['generator']:
                return True, 'command changed for %s' % o
            if r[1] < newest_input:
                return True, 'recorded time of %s older than input' % o
        return False, None

    # ---- folding what a build did into the model's records
    def fold_success(self, g, e, lock_tick, wrote, files_after, hidden_written):
        outs = all_outs(e) + dd_outs(g, e)
        t = lock_tick
        if is_restat(e) or e['generator']:
            if e['generator'] and not is_restat(e):
                t = max([t] + [files_after[o]['m'] for o in outs if o in files_after])
            elif set(outs) <= set(wrote):
                t = max([t] + [files_after[o]['m'] for o in outs if o in files_after])
        sig = self.cmdsig(g, e)
        for o in outs:
            self.rec[o] = (sig, t)
        if e.get('deps') in ('gcc', 'msvc'):
            for o in outs:
                if o in files_after:
                    self.deprec[o] = (files_after[o]['m'], list(hidden_written))
        if e.get('deps') == 'depfile':
            self.dfile[depfile_path(e)] = list(hidden_written)
        self.failed.discard(key(e))

    def fold_failure(self, g, e, wrote_depfile, hidden_written):
        self.failed.add(key(e))
        if wrote_depfile and e.get('deps') == 'depfile':
            self.dfile[depfile_path(e)] = list(hidden_written)
