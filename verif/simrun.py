"""History runner for the SIM engine: applies a generated history to a generated graph, predicts every
invocation with the reference models, runs it in the probe, and evaluates the oracles of C01-C06 (and the
metamorphic ones built on top). Findings are tagged with the property whose clause they break."""
import copy, json, os
from . import graphs, models
from .models import key, all_outs, producer_map, Content, Make
from .probe import ProbeDied

LOCK = ".ninja_lock"


class Finding(dict):
    """dict(prop=, kind=, detail=, known=None|signature)"""


def transitive_producers(g, e, disc):
    """keys of all edges whose outputs e (transitively) consumes through any input kind / discovered / dyndep input"""
    prod = producer_map(g)
    seen = set()
    todo = [e]
    while todo:
        x = todo.pop()
        ins = x['exp'] + x['imp'] + x['oo'] + models.dd_inputs(g, x) + ([x['dd']] if x.get('dd') else []) + list(disc.get(key(x), []))
        for i in ins:
            p = prod.get(i)
            if p is not None and key(p) not in seen:
                seen.add(key(p))
                todo.append(p)
    return seen


def classify_died(g, d, model=None, files=None, targets=None):
    """known finding D18 (a statement judged dirty before its dyndep file, which adds restat, was loaded, and clean
    afterwards): the abort is at D18's call site AND - when the model's records are known - the counterfactual model says
    that such a statement exists in this very invocation. Without model knowledge (after a crash, foreign runners) only
    the coarser shape test is possible: the graph has a dyndep-added restat."""
    if not ("RefreshDyndepDependents" in d.stderr and "!edge->outputs_ready()" in d.stderr
            and any(e.get('dd') and e.get('dd_restat') for e in g['edges'])):
        return None
    if model is not None and files is not None and targets is not None:
        try:
            p = model.plan(g, files, targets, cf_dyndep_restat_late=True)
        except Exception:
            return None
        if not p.get('late'):
            return None
    return 'D18_dirty_before_dyndep_restat_clean_after'


class Sim:
    def __init__(self, probe, g, check=None):
        self.probe = probe
        self.g = copy.deepcopy(g)
        self.files = {}
        self.dirs = []
        self.now = 10
        self.edit_n = 0
        self.model = Make()
        self.logdir = probe.newdir()
        self.findings = []
        self.stats = dict(builds=0, invocations=0)
        self.labels = set()
        self.synced = True          # False after a crash/interrupt: model records no longer known
        self.pending_mid_edit = False
        self.stop = False           # set after a known finding: the tree is off the rails, stop the history
        self.check = check or {}
        self.last = None
        self.setup_backend()
        for s in self.g['srcs']:
            self.write(s, s + "#0")
        for dd, info in self.g.get('dd_files', {}).items():
            if not info['produced']:
                self.write(dd, models.dyndep_text(self.g, dd))

    def close(self):
        self.probe.rmdir(self.logdir)

    # ------------------------------------------------------------------ helpers
    def edge_by_key(self, k):
        for e in self.g['edges']:
            if key(e) == k:
                return e
        return None

    def cmd_edges(self):
        return [e for e in self.g['edges'] if not e['phony']]

    def new_content(self, s, c):
        self.edit_n += 1
        return "K%d" % c if c < 3 else "%s#%d" % (s, self.edit_n)

    # ---- file-system primitives (overridden by the E2E backend, which works on a real directory)
    def setup_backend(self):
        pass

    def write(self, path, content):
        self.now += 1
        self.files[path] = {'c': content, 'm': self.now}

    def touch(self, path):
        if path in self.files:
            self.now += 1
            self.files[path]['m'] = self.now

    def delete(self, path):
        self.files.pop(path, None)

    def execute(self, req):
        """runs one invocation described by a SIM request; returns the result dict (raises ProbeDied)"""
        return self.probe.request(req)

    def add(self, prop, kind, detail, known=None, edges=None):
        """edges: statements the finding is about; used to attribute it to a listed known finding"""
        if known is None and edges is not None and getattr(self, 'cur', None):
            known = self.attribute(self.cur['targets'], self.cur['started'], self.cur['files_before'], edges, need_same_run=False)
        self.findings.append(Finding(prop=prop, kind=kind, detail=detail, known=known))
        if known:
            self.stop = True    # the tree is off the rails from here on; the rest of the history proves nothing

    def unordered_hidden(self, e):
        """generated hidden reads of e that have no manifest path to their producer"""
        prod = producer_map(self.g)
        cl, todo = set(), [e]
        while todo:      # ordering comes from inputs only: validations impose none
            x = todo.pop()
            for i in x['exp'] + x['imp'] + x['oo'] + models.dd_inputs(self.g, x):
                p = prod.get(i)
                if p is not None and key(p) not in cl:
                    cl.add(key(p))
                    todo.append(p)
        return [h for h in e.get('hidden', []) if prod.get(h) is not None and key(prod[h]) not in cl]

    # ------------------------------------------------------------------ change ops
    def apply_change(self, op):
        g = self.g
        k = op['op']
        srcs = g['srcs']
        cmds = self.cmd_edges()
        if k == 'edit':
            s = srcs[op['a'] % len(srcs)]
            self.write(s, self.new_content(s, op.get('c', 5)))
        elif k == 'rehide' and cmds:
            # the set of files a command reads beyond its declared inputs changes because one of its declared source
            # inputs changed (an #include was replaced): new hidden set of the same size over other sources
            es = [e for e in cmds if e.get('deps') and e.get('hidden') and any(i in srcs for i in e['exp'] + e['imp'])]
            if es:
                e = es[op['a'] % len(es)]
                cand = [x for x in srcs if x not in e['exp'] + e['imp'] + e['oo'] and x in self.files]
                gen_h = [h for h in e['hidden'] if h not in srcs]
                nsrc = len(e['hidden']) - len(gen_h)
                if len(cand) >= max(nsrc, 1):
                    rot = op['b'] % len(cand)
                    new = (cand[rot:] + cand[:rot])[:max(nsrc, 1)]
                    if sorted(new + gen_h) != sorted(e['hidden']):
                        self.recent_hidden = [x for x in new if x not in e['hidden']] or new
                        e['hidden'] = new + gen_h
                        src_in = [i for i in e['exp'] + e['imp'] if i in srcs][0]
                        self.write(src_in, self.new_content(src_in, op.get('c', 5)))
                        self.labels.add('rehide')
        elif k == 'swap_hidden_same_content' and cmds:
            # directed: an include is replaced by another file with identical content, so a write-if-changed
            # (restat) command reproduces its output byte for byte while its dependency set changes
            es = [e for e in cmds if e.get('deps') and any(h in srcs for h in e.get('hidden', [])) and
                  any(i in srcs for i in e['exp'] + e['imp'])]
            if es:
                e = es[op['a'] % len(es)]
                old = [h for h in e['hidden'] if h in srcs][0]
                cand = [x for x in srcs if x not in e['exp'] + e['imp'] + e['oo'] + e['hidden'] and x in self.files]
                if cand and old in self.files:
                    new = cand[op['b'] % len(cand)]
                    self.write(new, self.files[old]['c'])
                    e['hidden'] = [new if h == old else h for h in e['hidden']]
                    self.recent_hidden = [new]
                    src_in = [i for i in e['exp'] + e['imp'] if i in srcs][0]
                    self.touch(src_in)
                    self.labels.add('swap_hidden_same_content')
        elif k == 'wipe_outs' and cmds:
            if not any(self.unordered_hidden(e) for e in cmds):
                for e in cmds:
                    for o in all_outs(e):
                        self.delete(o)
                self.labels.add('wipe_outs')
        elif k == 'touch':
            s = srcs[op['a'] % len(srcs)]
            self.touch(s)
        elif k == 'del_src':
            # only files that are declared inputs and nothing else: a vanished *discovered* input is a different clause
            # (rebuild, no error), and the command reading it would fail on its own
            special = set(h for e in g['edges'] for h in e.get('hidden', [])) | set(i for e in g['edges'] for i in models.dd_inputs(g, e)) | \
                set(g.get('dd_files', {})) | {'sv'}
            declared = set(i for e in g['edges'] for i in e['exp'] + e['imp'] + e['oo'])
            cand = [s_ for s_ in srcs if s_ in self.files and s_ in declared and s_ not in special and not s_.startswith('ddsrc')]
            if cand:
                self.delete(cand[op['a'] % len(cand)])
                self.labels.add('declared_source_deleted')
        elif k == 'add_oo' and cmds:
            # (macro step) a statement gets two more order-only inputs: the output of an earlier statement and a plain source
            self.macro_ctx = None
            idx = [i for i, e in enumerate(g['edges']) if not e['phony'] and not e.get('is_dd_producer') and not e.get('bare')]
            if idx:
                xi = idx[op['a'] % len(idx)]
                X = g['edges'][xi]
                xin = set(X['exp'] + X['imp'] + X['oo'] + list(X.get('hidden', [])) + models.dd_inputs(g, X))
                special = set(h for e in g['edges'] for h in e.get('hidden', [])) | set(i for e in g['edges'] for i in models.dd_inputs(g, e)) | \
                    set(g.get('dd_files', {})) | {'sv'}
                earlier = [e for e in g['edges'][:xi] if not e['phony'] and not e.get('is_dd_producer') and not (set(all_outs(e)) & xin)
                           and any(s_ in srcs and s_ not in xin and s_ in self.files for s_ in e['exp'] + e['imp'])]
                cand = [s_ for s_ in srcs if s_ in self.files and s_ not in xin and s_ not in special and not s_.startswith('ddsrc')]
                if earlier and cand:
                    P = earlier[op['b'] % len(earlier)]
                    psrc = [s_ for s_ in P['exp'] + P['imp'] if s_ in srcs and s_ not in xin and s_ in self.files][0]
                    cand = [s_ for s_ in cand if s_ != psrc]
                    if cand:
                        S = cand[op['b'] % len(cand)]
                        X['oo'] = X['oo'] + [all_outs(P)[0], S]
                        self.macro_ctx = dict(X=key(X), S=S, psrc=psrc)
                        self.labels.add('order_only_source_and_generated_added')
        elif k == 'alias_file':
            # a file (in a real tree usually a directory: `build docs: phony docs/index.html`) carries the name of an alias
            # that groups a source file, and a command reaches that source only through the alias
            self.macro_ctx = None
            phs = [e for e in g['edges'] if e['phony'] and (e['exp'] or e['imp']) and not e.get('vals')]
            if phs:
                e = phs[op['a'] % len(phs)]
                name = e['outs'][0]
                behind = [i for i in e['exp'] + e['imp'] if i in srcs and i in self.files and not i.startswith('ddsrc')]
                if not behind:
                    if 'salias' not in srcs:
                        srcs.append('salias')
                    if 'salias' not in e['exp']:
                        e['exp'] = e['exp'] + ['salias']
                    self.write('salias', self.new_content('salias', 5))
                    behind = ['salias']
                if not any(key(x) == 'oalias' for x in g['edges']):
                    g['edges'].append(dict(outs=['oalias'], iouts=[], phony=False, exp=[name], imp=[], oo=[], vals=[], restat=False, generator=False,
                                           deps='', hidden=[], variant='v0', pool='', rsp=None, dd=None, depfile_layout=0))
                self.write(name, 'a file named like the alias')
                self.macro_ctx = dict(alias=name, alias_src=behind[0])
                self.labels.add('file_named_like_an_alias')
        elif k == 'ctx_edit_alias_src':
            ctx = getattr(self, 'macro_ctx', None)
            if ctx and ctx.get('alias_src'):
                self.write(ctx['alias_src'], self.new_content(ctx['alias_src'], op.get('c', 5)))
        elif k == 'add_ovf':
            srcs_ = [s_ for s_ in srcs if s_ in self.files and not s_.startswith('ddsrc')]
            if srcs_ and not any(key(e) == 'ovf0' for e in g['edges']):
                for i in range(op['n']):
                    g['edges'].append(dict(outs=['ovf%d' % i], iouts=[], phony=False, exp=[srcs_[(op['a'] + i) % len(srcs_)]], imp=[], oo=[], vals=[],
                                           restat=False, generator=False, deps='', hidden=[], variant='v0', pool='', rsp=None, dd=None, depfile_layout=0))
                self.labels.add('manifest_statement_added')
        elif k == 'ctx_restat_input':
            # (macro step) the source input of a restat statement gets new content (edit) or only a new time stamp (touch)
            if op.get('pick') is not None:
                self.macro_ctx = None
                es = [e for e in cmds if models.is_restat(e) and any(i in srcs and i in self.files for i in e['exp'] + e['imp'])]
                # half of the time a statement whose output is consumed through a phony alias, if there is one
                via_alias = [e for e in es if any(x['phony'] and set(all_outs(e)) & set(x['exp'] + x['imp'] + x['oo']) for x in g['edges'])]
                if via_alias and op['pick'] % 2 == 0:
                    es = via_alias
                if es:
                    e = es[op['pick'] % len(es)]
                    self.macro_ctx = dict(R=key(e), rsrc=[i for i in e['exp'] + e['imp'] if i in srcs and i in self.files][0])
            ctx = getattr(self, 'macro_ctx', None)
            if ctx and ctx.get('rsrc'):
                if op.get('edit'):
                    self.write(ctx['rsrc'], self.new_content(ctx['rsrc'], op.get('c', 5)))
                else:
                    self.touch(ctx['rsrc'])
                    self.labels.add('restat_noop_after_partial_build')
        elif k == 'ctx_del_src':
            if getattr(self, 'macro_ctx', None):
                self.delete(self.macro_ctx['S'])
                self.labels.add('order_only_source_deleted_while_producer_dirty')
        elif k == 'ctx_edit_psrc':
            if getattr(self, 'macro_ctx', None):
                s_ = self.macro_ctx['psrc']
                self.write(s_, self.new_content(s_, op.get('c', 5)))
        elif k == 'del_out' and cmds:
            outs = [o for e in cmds for o in all_outs(e)]
            self.delete(outs[op['a'] % len(outs)])
        elif k == 'variant' and cmds:
            e = cmds[op['a'] % len(cmds)]
            e['variant'] = 'v%d' % op['b']
        elif k == 'rspvar':
            # generator statements are exempt from the command/rspfile hash by documentation: a changed response
            # file would then (correctly) not re-run them, which is outside what C01 can demand
            es = [e for e in cmds if e.get('rsp') is not None and not e['generator']]
            if es:
                es[op['a'] % len(es)]['rsp'] = 'r%d' % op['b']
        elif k == 'del_depfile':
            es = [e for e in cmds if e.get('deps') == 'depfile' and not self.unordered_hidden(e)]
            if es:
                e = es[op['a'] % len(es)]
                self.delete(models.depfile_path(e))
                self.labels.add('del_depfile')
        elif k == 'drop_log':
            es = [e for e in cmds]
            if es:
                e = es[op['a'] % len(es)]
                self.drop_log_records(all_outs(e))
                self.labels.add('drop_log')
        elif k == 'add_edge':
            # a new statement appears in the manifest: it consumes one or two existing files
            n = 1 + max([int(key(e)[2:]) for e in g['edges'] if key(e).startswith('on') and key(e)[2:].isdigit()] or [0])
            avail = list(srcs) + [o for e in cmds for o in all_outs(e)]
            avail = [x for x in avail if not x.startswith('dd')]
            if avail and n < 6:
                ins = sorted(set([avail[op['a'] % len(avail)], avail[op['b'] % len(avail)]]))
                g['edges'].append(dict(outs=['on%d' % n], iouts=[], phony=False, exp=ins, imp=[], oo=[], vals=[], restat=bool(op.get('restat')), generator=False,
                                       deps='', hidden=[], variant='v0', pool='', rsp=None, dd=None, depfile_layout=0))
                self.labels.add('manifest_statement_added')
        elif k == 'remove_edge':
            used = set()
            for e in g['edges']:
                used.update(e['exp'] + e['imp'] + e['oo'] + e.get('vals', []) + e.get('hidden', []) + e.get('dd_ins', []))
                if e.get('dd'):
                    used.add(e['dd'])
            cand = [e for e in g['edges'] if not (set(all_outs(e)) & used) and not e.get('dd') and not e.get('is_dd_producer')]
            if cand and len(g['edges']) > 1:
                v = cand[op['a'] % len(cand)]
                g['edges'].remove(v)
                self.labels.add('manifest_statement_removed')
        elif k == 'bloat_log':
            p = os.path.join(self.logdir, ".ninja_log")
            try:
                raw = open(p, "rb").read()
            except FileNotFoundError:
                raw = b""
            lines = [l for l in raw.split(b"\n")[1:] if l.count(b"\t") >= 4]
            if lines and raw.endswith(b"\n"):
                uniq = len(set(l.split(b"\t")[3] for l in lines))
                # exactly at the recompaction threshold (more than 100 entries and more than 3x the unique ones): the next
                # build that records anything pushes the log over it, and the invocation after that recompacts
                target = max(100, 3 * uniq)
                add = []
                while len(lines) + len(add) < target:
                    add += lines
                add = add[:max(0, target - len(lines))]
                if add:
                    # keep "last record per output" unchanged: the appended copies end with the original tail order
                    with open(p, "wb") as f:
                        f.write(raw.split(b"\n")[0] + b"\n" + b"\n".join(add + lines) + b"\n")
                self.labels.add('bloat_log')
        elif k == 'wipe_deps':
            if not any(self.unordered_hidden(e) for e in cmds):
                try:
                    os.unlink(os.path.join(self.logdir, ".ninja_deps"))
                except FileNotFoundError:
                    pass
                self.model.deprec.clear()
                self.labels.add('wipe_deps')
        elif k == 'touch_restat_input':
            es = [e for e in cmds if models.is_restat(e)]
            if es:
                e = es[op['a'] % len(es)]
                cand = [i for i in e['exp'] + e['imp'] if i in srcs]
                if cand:
                    self.touch(cand[0])
                    self.labels.add('restat_noop_directed')
        elif k == 'dd_restat_noop':
            es = [e for e in cmds if e.get('dd') and e.get('dd_restat') and g.get('dd_files', {}).get(e['dd'], {}).get('produced')]
            if es:
                e = es[op['a'] % len(es)]
                pe = producer_map(g).get(e['dd'])
                cand = [i for i in e['exp'] + e['imp'] if i in srcs and i in self.files]
                if pe is not None and cand and pe['exp'] and pe['exp'][0] in self.files:
                    self.touch(pe['exp'][0])       # the dyndep file is produced again (it is loaded in the middle of the build) ...
                    self.touch(cand[0])            # ... and the bound statement runs without changing its output
                    self.labels.add('dyndep_restat_noop_with_file_rebuilt')
        elif k == 'edit_recent_hidden':
            if getattr(self, 'recent_hidden', None):
                s = self.recent_hidden[0]
                self.write(s, self.new_content(s, 5))
                self.labels.add('edit_recent_hidden')
        elif k == 'edit_hidden':
            hs = [h for e in cmds for h in e.get('hidden', []) if h in srcs]
            if hs:
                s = hs[op['a'] % len(hs)]
                self.edit_n += 1
                self.write(s, "%s#%d" % (s, self.edit_n))
                self.labels.add('edit_hidden')

    def drop_log_records(self, outs):
        p = os.path.join(self.logdir, ".ninja_log")
        try:
            lines = open(p, "rb").read().split(b"\n")
        except FileNotFoundError:
            return
        keep = []
        for l in lines:
            f = l.split(b"\t")
            if len(f) >= 5 and f[3].decode("latin-1") in outs:
                continue
            keep.append(l)
        open(p, "wb").write(b"\n".join(keep))
        for o in outs:
            self.model.rec.pop(o, None)

    # ------------------------------------------------------------------ one invocation
    def request(self, targets, j=1, k=1, sched=(), faults=None, extra=None, establishing=False):
        files = dict(self.files)
        gm = self.g
        if establishing:
            # validations do not influence any command; leaving them out while the discovery information is
            # being established keeps a validation from pulling in a statement whose hidden reads do not exist yet
            gm = copy.deepcopy(self.g)
            for e in gm['edges']:
                e['vals'] = []
        files['build.ninja'] = {'c': graphs.manifest(gm), 'm': 1}
        req = dict(kind="sim", files=files, dirs=self.dirs, now=self.now, logdir=self.logdir, targets=targets,
                   j=j, k=k, edges=graphs.sim_edges(self.g, faults), schedule=list(sched), no_regen=True)
        if extra:
            req.update(extra)
        return req

    def absorb(self, res):
        self.files = {p: f for p, f in res['files'].items() if p != 'build.ninja'}
        self.dirs = res['dirs']
        self.now = res['now']

    def invoke(self, targets, j=1, k=1, sched=(), faults=None, mid_edits=None, establishing=False, oracles=True):
        """Runs one build; returns the probe result (or None if the probe child died, which is recorded)."""
        g = self.g
        self.stats['invocations'] += 1
        pred = pred_cf = None
        files_before = copy.deepcopy(self.files)
        log_before = None
        if self.synced and not faults:
            pred = self.model.plan(g, self.files, targets)
        elif self.synced:
            pred = self.model.plan(g, self.files, targets)
        extra = {}
        if mid_edits:
            extra['mid_edits'] = mid_edits
        req = self.request(targets, j, k, sched, faults, extra, establishing)
        try:
            res = self.execute(req)
        except ProbeDied as d:
            self.add('C13', 'crash', 'SIM child died: ' + d.describe(),
                     known=classify_died(g, d, *((self.model, self.files, targets) if self.synced else ())))
            self.stop = True
            return None
        self.last = dict(req=req, res=res, pred=pred)
        self.absorb(res)
        tr = res['trace']
        starts = [ev for ev in tr if ev['ev'] == 'start']
        fins = {ev['edge']: ev for ev in tr if ev['ev'] == 'finish'}
        started = [ev['edge'] for ev in starts]
        ok = res['status'] == 0 and res['phase'] in ('build', 'uptodate')
        if mid_edits and any(ev['ev'] == 'mid_edit' for ev in tr):
            self.pending_mid_edit = True
        if oracles and not establishing:
            self.oracles(targets, j, k, faults, pred, res, starts, fins, started, ok, files_before)
        elif oracles:
            if not ok:
                self.add('C01', 'establishing build failed', dict(err=res['err'], phase=res['phase'], targets=targets))
                self.stop = True
        # fold into the model
        if self.synced:
            for ev in starts:
                e = self.edge_by_key(ev['edge'])
                f = fins.get(ev['edge'])
                if f is None:
                    continue
                spec = req['edges'].get(ev['edge'], {})
                if f['status'] == 0:
                    self.model.fold_success(g, e, ev['lock_mtime'], f['wrote'], self.files, spec.get('hidden', []))
                else:
                    wrote_df = bool(spec.get('fail_touch') or spec.get('fail_depfile'))
                    self.model.fold_failure(g, e, wrote_df, spec.get('hidden', []))
        if ok and not mid_edits:
            self.pending_mid_edit = False
        return res

    # ------------------------------------------------------------------ oracles
    def oracles(self, targets, j, k, faults, pred, res, starts, fins, started, ok, files_before):
        g = self.g
        self.cur = dict(targets=targets, started=started, files_before=files_before)
        prod = producer_map(g)
        tr = res['trace']
        # ---------- termination / stuck (C06)
        if 'stuck' in (res.get('err') or ''):
            self.add('C06', 'stuck', dict(err=res['err'], targets=targets))
        # ---------- once-only, -j and pool limits (C06)
        seen = set()
        for ev in starts:
            if ev['edge'] in seen:
                self.add('C06', 'started twice', dict(edge=ev['edge']))
            seen.add(ev['edge'])
            if len(ev['running']) + 1 > max(j, 1):
                self.add('C06', 'more than -j commands running', dict(edge=ev['edge'], running=ev['running'], j=j))
            e = self.edge_by_key(ev['edge'])
            pool = e.get('pool') or ''
            if pool:
                depth = 1 if pool == 'console' else g['pools'].get(pool, 0)
                same = [r for r in ev['running'] if (self.edge_by_key(r).get('pool') or '') == pool]
                if depth and len(same) + 1 > depth:
                    self.add('C06', 'pool depth exceeded', dict(edge=ev['edge'], pool=pool, depth=depth, running=same))
        # ---------- labels describing what this invocation exercised (for the non-triviality rules)
        ncmd = len(self.cmd_edges())
        if any(ev['running'] for ev in starts):
            self.labels.add('parallel')
        if 0 < len(started) < ncmd:
            self.labels.add('partial_rebuild')
        if len(started) >= 2:
            self.labels.add('ge2_commands')
        for fk, f in fins.items():
            if f['status'] != 0:
                self.labels.add('failure')
                st_ev = next(ev for ev in starts if ev['edge'] == fk)
                if any(w['ev'] == 'wait' and len(w['running']) >= 2 and fk in w['running'] for w in tr):
                    self.labels.add('failure_while_other_running')
        if len(set((self.edge_by_key(x).get('pool') or '') for x in started)) >= 2:
            self.labels.add('multi_pool_build')
        if pred is None:
            return
        disc = pred.get('disc', {})
        if pred['error'] is None:
            dirty_cmds = [k_ for k_ in pred.get('reached', []) if not self.edge_by_key(k_)['phony']]
            if len(pred['run']) < len(dirty_cmds):
                self.labels.add('restat_pruned')
            for ev in starts:
                need = transitive_producers(g, self.edge_by_key(ev['edge']), disc)
                if any(p_ in started for p_ in need):
                    self.labels.add('producer_ran_first')
                    break
            for ev in starts:
                pool = self.edge_by_key(ev['edge']).get('pool') or ''
                if pool and any(w['ev'] == 'wait' and w['free'] > 0 and w['seq'] < ev['seq'] for w in tr):
                    self.labels.add('pool_delayed')
        # ---------- missing source (C05 clause)
        if pred['error'] and pred['error'].startswith('missing:'):
            name = pred['error'][8:]
            if ok or started or name not in (res.get('err') or ''):
                self.add('C05', 'missing source not reported before any command', dict(missing=name, status=res['status'], err=res['err'], started=started))
            return
        if pred['error']:
            return
        failed = [k_ for k_, f in fins.items() if f['status'] != 0]
        nfail_allowed = k if k > 0 else 10 ** 9
        # ---------- C04: ordering, directories, rspfile
        done_ok = set()
        pos = {}
        for ev in tr:
            if ev['ev'] == 'finish' and ev['status'] == 0:
                done_ok.add(ev['edge'])
            if ev['ev'] != 'start':
                continue
            e = self.edge_by_key(ev['edge'])
            need = transitive_producers(g, e, disc)
            for pk in need:
                pe = self.edge_by_key(pk)
                if pe['phony']:
                    continue
                if (pk in started or pk in pred['run']) and pk not in done_ok:
                    known = self.attribute(targets, started, files_before, [ev['edge']], need_same_run=False)
                    self.add('C04', 'started before a producer finished', dict(edge=ev['edge'], producer=pk, running=ev['running'],
                                                                               producer_started=pk in started), known=known)
            for pth, okd in ev['dirs_ok'].items():
                if not okd:
                    self.add('C04', 'directory of %s missing at start' % pth, dict(edge=ev['edge']))
            if e.get('rsp') is not None:
                if ev.get('rspfile') != models.rsp_content(g, e):
                    self.add('C04', 'rspfile content wrong at start', dict(edge=ev['edge'], got=ev.get('rspfile'), want=models.rsp_content(g, e)))
        # ---------- C05: containment
        if failed:
            nf = 0
            fail_seq = {}
            fail_t = []
            for ev in tr:
                if ev['ev'] == 'finish' and ev['status'] != 0:
                    nf += 1
                    fail_seq[ev['edge']] = ev['seq']
                    fail_t.append(ev.get('t'))
                if ev['ev'] == 'start':
                    e = self.edge_by_key(ev['edge'])
                    need = transitive_producers(g, e, disc)
                    bad = [f for f in fail_seq if f in need]
                    if bad:
                        self.add('C05', 'started although a producer failed', dict(edge=ev['edge'], failed=bad), edges=[ev['edge']])
                    if nf >= nfail_allowed:
                        # with real processes ninja learns of a failure only when it reaps the command: a start within
                        # 150 ms of the exit of the command that used up the budget is not evidence of anything
                        if ev.get('t') is not None and fail_t[nfail_allowed - 1] is not None and ev['t'] - fail_t[nfail_allowed - 1] < 150e6:
                            continue
                        self.add('C05', 'started after the failure budget was used up', dict(edge=ev['edge'], failures=nf, k=k))
            if res['status'] == 0:
                self.add('C05', 'exit status 0 although a command failed', dict(failed=failed))
            else:
                codes = set(fins[f]['status'] for f in failed)
                if res['status'] not in codes:
                    self.add('C05', 'exit status not taken from a failed command', dict(status=res['status'], codes=sorted(codes)))
            # records: nothing new for failed edges
            for fk in ([] if res.get('no_logs') else failed):
                e = self.edge_by_key(fk)
                for o in all_outs(e):
                    want = self.model.rec.get(o)
                    got = res['log'].get(o)
                    if 'log_before' in res:
                        # real binary: compare with what the log held before this build. (The model's timestamp for a record
                        # is the lock file's time as the helper tool saw it; ninja touches that file again for every command
                        # it starts, so the two can differ by microseconds when commands start close together.)
                        lb = res['log_before'].get(o)
                        want = None if lb is None else (None, lb['mtime'])
                    if (got is None) != (want is None) or (got is not None and got['mtime'] != want[1]):
                        self.add('C05', 'build-log record changed for an output of a failed command', dict(out=o, got=got, model=want))
                    wd = self.model.deprec.get(o)
                    gd = res['deps'].get(o)
                    if (gd is None) != (wd is None) or (gd is not None and (gd['mtime'] != wd[0] or sorted(gd['ins']) != sorted(wd[1]))):
                        self.add('C05', 'deps-log record changed for an output of a failed command', dict(out=o, got=gd, model=wd))
            # completeness while the budget lasted
            if len(failed) < nfail_allowed:
                # statements that are part of the build only through what a dyndep file adds are unknown while the
                # statement producing that file has failed
                prod_ = producer_map(g)
                known0, todo_ = set(), list(targets)
                while todo_:
                    n_ = todo_.pop()
                    pe_ = prod_.get(n_)
                    if pe_ is None or key(pe_) in known0:
                        continue
                    known0.add(key(pe_))
                    todo_ += pe_['exp'] + pe_['imp'] + pe_['oo'] + list(disc.get(key(pe_), [])) + pe_.get('vals', []) + ([pe_['dd']] if pe_.get('dd') else [])
                dd_failed = any(self.edge_by_key(f_).get('is_dd_producer') for f_ in failed)
                for rk in pred['run']:
                    e = self.edge_by_key(rk)
                    if rk in started:
                        continue
                    if dd_failed and rk not in known0:
                        continue
                    need = transitive_producers(g, e, disc)
                    if not any(f in need for f in failed):
                        # (attribution is asked about the statement that was not started - e.g. one whose earlier failed
                        # command had rewritten its output and is trusted now, D8 - not about the ones that failed here)
                        self.add('C05', 'independent command not started although the failure budget was not exhausted', dict(edge=rk, failed=failed, k=k), edges=[rk])
            extra = [s for s in started if s not in pred['run']]
            if extra:
                self.add('C03', 'unneeded command run', dict(extra=extra, pred=pred['run'], why=pred['why']))
            # successful commands are recorded even after a failure
            for sk, f in fins.items():
                if f['status'] == 0 and not res.get('no_logs'):
                    for o in all_outs(self.edge_by_key(sk)):
                        if o not in res['log']:
                            self.add('C05', 'successful command not recorded in a failing build', dict(out=o))
        # ---------- C06: no idle slot (retrospective), only while the budget lasts
        self.no_idle(tr, j, k, starts, fins, disc, pred)
        if failed and not faults:
            self.add('C01', 'a command failed although no fault was injected (an input it reads was missing when it started)',
                     dict(failed=failed, err=res['err']), edges=failed)
        if failed or faults:
            return
        # ---------- from here on: failure-free builds
        if not ok:
            self.add('C01', 'build failed without any injected fault', dict(err=res['err'], phase=res['phase'], status=res['status'], failed=failed), edges=failed or None)
            return
        # ---------- C03 minimality / completeness
        # (not for a build during which a file was edited: the prediction was made from the tree as it was when the build
        # began, and whether a command sees the old or the new file depends on when it ran or when ninja looked - e.g. an
        # input that a dyndep file adds is only examined after that file has been produced. The "edited while a build
        # runs" clause is C01's and is judged there, on the next build.)
        mid_edit_in_this_build = any(ev['ev'] == 'mid_edit' for ev in tr)
        if mid_edit_in_this_build:
            self.labels.add('run_set_not_judged_mid_build_edit')
        if not mid_edit_in_this_build and sorted(started) != sorted(pred['run']):
            missing = [r for r in pred['run'] if r not in started]
            extra = [s for s in started if s not in pred['run']]
            known = self.attribute(targets, started, files_before, [])
            self.add('C03', 'run set differs from the make-semantics model', dict(
                started=started, predicted=pred['run'], missing=missing, extra=extra,
                why={k_: pred['why'].get(k_) for k_ in missing + extra}, targets=targets), known=known)
            if missing and res['status'] == 0:
                # C06's termination clause: a build that ends with success has run everything that was needed
                self.add('C06', 'build ended with success although needed commands were never started', dict(
                    missing=missing, started=started, targets=targets, err=res['err']), known=known)
            if known:
                self.stop = True
        # ---------- C01 content
        if not self.pending_mid_edit:
            cont = Content(g, self.files)
            stale = []
            stale_edges = []
            for e in self.closure_for_content(targets, disc):
                if e['phony']:
                    continue
                for o in all_outs(e):
                    if self.files.get(o, {}).get('c') != cont.expected(o):
                        stale.append(o)
                        stale_edges.append(key(e))
            if stale:
                known = self.attribute(targets, started, files_before, stale_edges)
                self.add('C01', 'stale or wrong content after a successful build', dict(stale=stale, started=started, predicted=pred['run'], targets=targets), known=known)

    def closure_for_content(self, targets, disc):
        g = self.g
        prod = producer_map(g)
        seen, order, vals = set(), [], []

        def visit(n):
            e = prod.get(n)
            if e is None or key(e) in seen:
                return
            seen.add(key(e))
            vals.extend(e.get('vals', []))
            for i in e['exp'] + e['imp'] + e['oo'] + models.dd_inputs(g, e) + e.get('hidden', []):
                visit(i)
            order.append(e)
        for t in targets:
            visit(t)
        i = 0
        while i < len(vals):
            visit(vals[i])
            i += 1
        return order

    def downstream(self, keys):
        """keys plus every edge that (transitively, through any input kind or hidden read) consumes their outputs"""
        g = self.g
        out = set(keys)
        changed = True
        while changed:
            changed = False
            for e in g['edges']:
                if key(e) in out:
                    continue
                prods = set()
                for i in e['exp'] + e['imp'] + e['oo'] + models.dd_inputs(g, e) + e.get('hidden', []):
                    p = producer_map(g).get(i)
                    if p is not None:
                        prods.add(key(p))
                if prods & out:
                    out.add(key(e))
                    changed = True
        return out

    def attribute(self, targets, started, files_before, affected, need_same_run=True):
        """Does a counterfactual model (a listed known finding) predict exactly what ninja did, and are all
        affected statements at or downstream of a statement where that counterfactual differs from the real model?"""
        m = self.last_model_before
        for sig, kw in (('D1_dirty_edge_ignores_discovered_inputs', dict(cf_dirty_ignores_discovered=True)),
                        ('D8_failed_command_touched_output_trusted', dict(cf_trust_after_failed_touch=True)),
                        ('D1_dirty_edge_ignores_discovered_inputs+D8_failed_command_touched_output_trusted',
                         dict(cf_dirty_ignores_discovered=True, cf_trust_after_failed_touch=True)),
                        ('D18_dirty_before_dyndep_restat_clean_after', dict(cf_dyndep_restat_late=True))):
            p = m.plan(self.g, files_before, targets, **kw)
            if p['error'] is None and need_same_run and sorted(p['run']) != sorted(started) and p['ignored']:
                # a restat statement that ran without its discovered inputs may or may not have reproduced its old
                # output (it depends on whether the ignored producer happened to run first): both outcomes belong to
                # the counterfactual prediction
                amb = [x for x in sorted(self.downstream(p['ignored'])) if (self.edge_by_key(x) or {}).get('restat')][:4]
                for mask in range(1, 1 << len(amb)):
                    sub = [amb[i] for i in range(len(amb)) if mask >> i & 1]
                    p2 = m.plan(self.g, files_before, targets, assume_flip=sub, **kw)
                    if p2['error'] is None and sorted(p2['run']) == sorted(started):
                        p = p2
                        break
            if (p['error'] is None and need_same_run and sorted(p['run']) != sorted(started) and kw.get('cf_dirty_ignores_discovered')
                    and 2 <= len(p['ignored']) <= 5):
                # only some of the eligible statements skipped their discovered inputs (see Make.plan cf_ignore_only)
                elig = sorted(p['ignored'])
                for mask in range(1, (1 << len(elig)) - 1):
                    sub = set(elig[i] for i in range(len(elig)) if mask >> i & 1)
                    p3 = m.plan(self.g, files_before, targets, cf_ignore_only=sub, **kw)
                    if p3['error'] is None and sorted(p3['run']) == sorted(started) and p3['ignored']:
                        p = p3
                        break
            if p['error'] is not None or (need_same_run and sorted(p['run']) != sorted(started)):
                continue
            origin = p['ignored'] | p['trusted'] | p.get('late', set())
            if not origin:
                continue
            # statements that only the ignored discovered inputs would have pulled into the build
            up = set()
            for ok_ in p['ignored']:
                e = self.edge_by_key(ok_)
                for x in models.closure_edges(self.g, [h for h in e.get('hidden', [])]):
                    up.add(key(x))
            if set(affected) <= (self.downstream(origin) | up):
                return sig
        return None

    def no_idle(self, tr, j, k, starts, fins, disc, pred):
        g = self.g
        nfail_allowed = k if k > 0 else 10 ** 9
        start_seq = {ev['edge']: ev['seq'] for ev in starts}
        fin_seq = {e_: f['seq'] for e_, f in fins.items()}
        fin_ok = {e_: f['status'] == 0 for e_, f in fins.items()}
        started = set(start_seq)
        # statements that are part of the build only through inputs a dyndep file adds are unknown to ninja until
        # that file has been produced and loaded: they cannot count as startable before
        prod = producer_map(g)
        known_from_start, todo = set(), list(self.cur['targets']) if getattr(self, 'cur', None) else []
        vals_seen = set()
        while todo:
            n = todo.pop()
            pe = prod.get(n)
            if pe is None or key(pe) in known_from_start:
                continue
            known_from_start.add(key(pe))
            todo += pe['exp'] + pe['imp'] + pe['oo'] + list(disc.get(key(pe), [])) + pe.get('vals', []) + ([pe['dd']] if pe.get('dd') else [])
        dd_prod_fin = [fin_seq[key(x)] for x in g['edges'] if x.get('is_dd_producer') and key(x) in fin_seq]
        for ev in starts:
            e = self.edge_by_key(ev['edge'])
            need = [p for p in transitive_producers(g, e, disc) if p in started]
            if any(not fin_ok.get(p, False) for p in need):
                continue
            ready_at = max([fin_seq[p] for p in need] or [-1])
            if ev['edge'] not in known_from_start:
                if not dd_prod_fin:
                    continue
                ready_at = max([ready_at] + dd_prod_fin)
            pool = e.get('pool') or ''
            depth = 0
            if pool:
                depth = 1 if pool == 'console' else g['pools'].get(pool, 0)
            nf = 0
            for w in tr:
                if w['seq'] >= ev['seq']:
                    break
                if w['ev'] == 'finish' and w['status'] != 0:
                    nf += 1
                if w['ev'] != 'wait' or w['seq'] < ready_at:
                    continue
                if nf >= nfail_allowed or w['free'] <= 0 or not w['running']:
                    continue
                if depth:
                    same = [r for r in w['running'] if (self.edge_by_key(r).get('pool') or '') == pool]
                    if len(same) >= depth:
                        continue
                    # other edges of the same pool may legitimately have been preferred: only flag if the pool had room
                self.add('C06', 'waited although a command was startable and a slot was free', dict(
                    edge=ev['edge'], wait_seq=w['seq'], running=w['running'], free=w['free'], ready_since=ready_at))
                break

    def enumerate_build(self, targets, j, k=1, faults=None, cap=600):
        """ALL command completion orders of one build (the probe forks at every choice point); every leaf trace is
        judged by the same oracles. Returns (number of schedules, exhausted?)"""
        pred = self.model.plan(self.g, self.files, targets) if self.synced else None
        self.last_model_before = self.model.clone()
        files_before = copy.deepcopy(self.files)
        req = self.request(targets, j, k, (), faults, dict(enumerate=True, path_cap=cap))
        try:
            leaves = self.probe.request_all(req, timeout_ms=120000)
        except ProbeDied as d:
            self.add('C13', 'crash', 'SIM child died while exploring schedules: ' + d.describe(), known=classify_died(self.g, d))
            return 0, False
        truncated = any(l.get('truncated') for l in leaves)
        orders = set()
        for res in leaves:
            tr = res['trace']
            starts = [ev for ev in tr if ev['ev'] == 'start']
            fins = {ev['edge']: ev for ev in tr if ev['ev'] == 'finish'}
            started = [ev['edge'] for ev in starts]
            ok = res['status'] == 0 and res['phase'] in ('build', 'uptodate')
            orders.add(tuple(ev['edge'] for ev in tr if ev['ev'] == 'finish'))
            if 'log' not in res:     # the forked explorers share one pair of log files: not dumped, not judged
                res['no_logs'] = True
            res.setdefault('log', {})
            res.setdefault('deps', {})
            saved = self.files
            self.files = {p: f for p, f in res['files'].items() if p != 'build.ninja'}
            try:
                self.oracles(targets, j, k, faults, pred if not faults else pred, res, starts, fins, started, ok, files_before)
                from .props.C20 import status_invariants
                why = status_invariants(tr, ok and res['phase'] == 'build')
                if why:
                    self.add('C20', 'Status call sequence: ' + why, dict(schedule=res.get('choices')))
            finally:
                self.files = saved
            if any(not f['known'] for f in self.findings):
                break
        self.stats['schedules'] = self.stats.get('schedules', 0) + len(leaves)
        self.stats['distinct_orders'] = self.stats.get('distinct_orders', 0) + len(orders)
        if not truncated:
            self.stats['graphs_exhausted'] = self.stats.get('graphs_exhausted', 0) + 1
        self.labels.add('all_schedules' if not truncated else 'schedules_capped')
        return len(leaves), not truncated

    # ------------------------------------------------------------------ history
    def establish(self):
        for t in graphs.topo_targets(self.g):
            self.last_model_before = self.model.clone()
            r = self.invoke([t], j=1, establishing=True)
            if r is None or self.stop:
                return False
        return True

    def targets_for(self, sel):
        outs = [o for e in self.g['edges'] for o in all_outs(e)]
        if sel % 4 == 0:
            return [outs[(sel // 3) % len(outs)]]
        if sel % 4 == 1 and len(outs) > 1:
            a, b = outs[(sel // 3) % len(outs)], outs[(sel // 7) % len(outs)]
            return [a] if a == b else [a, b]
        # everything: the leaves (outputs nobody consumes) in definition order
        return [key(e) for e in self.g['edges']]

    def build(self, op):
        g = self.g
        targets = op.get('targets') or self.targets_for(op['sel'])
        faults = None
        if op.get('faults'):
            cmds = self.cmd_edges()
            faults = {}
            for (a, code, touch) in op['faults']:
                if cmds:
                    e = cmds[a % len(cmds)]
                    # a failed command that rewrote its output invalidates the recorded deps; with a generated
                    # hidden read that has no manifest path nothing could order the retry (a broken manifest by
                    # the manual's own words), so that combination is not generated
                    if touch and (self.unordered_hidden(e) or e.get('is_dd_producer')):
                        touch = False
                        self.stats['excluded_touch_on_unordered'] = self.stats.get('excluded_touch_on_unordered', 0) + 1
                    faults[key(e)] = dict(fail=code, fail_touch=touch)
        self.last_model_before = self.model.clone()
        self.stats['builds'] += 1
        mid = None
        if op.get('mid') and not faults and type(self) is Sim:
            # only files that no restat / generator statement reads: those record their output's own time, and the
            # property exempts them from the "edited while running" clause
            ph = models.phony_outs(g)
            exempt = set(r for e in self.cmd_edges() if models.is_restat(e) or e['generator'] for r in models.true_reads(g, e, ph))
            cand = [s for s in g['srcs'] if s not in exempt and not s.startswith('ddsrc')]
            if cand:
                s_ = cand[op['mid'][1] % len(cand)]
                mid = [dict(at=op['mid'][0], path=s_, content=self.new_content(s_, 5))]
                self.labels.add('mid_build_edit')
            else:
                self.stats['mid_edit_skipped_exempt'] = self.stats.get('mid_edit_skipped_exempt', 0) + 1
        res = self.invoke(targets, j=op['j'], k=op['k'], sched=op['sched'], faults=faults, mid_edits=mid)
        if res is None or self.stop:
            return
        ok = res['status'] == 0 and not faults and not self.pending_mid_edit
        if ok and self.check.get('converge', True):
            # C02: the same invocation again must start nothing. (Also when the first build already shows an unattributed
            # C01/C03 finding: each check reports its own property only, and a second run that does work is a C02
            # violation in its own right. After an attributed known finding the history has stopped above.)
            always_dirty = self.has_always_dirty(targets)
            first_model, first_cur = self.last_model_before, dict(getattr(self, 'cur', None) or {})
            self.last_model_before = self.model.clone()
            r2 = self.invoke(targets, j=1, oracles=False)
            if r2 is not None and not always_dirty:
                st2 = [ev['edge'] for ev in r2['trace'] if ev['ev'] == 'start']
                if st2 or r2['phase'] != 'uptodate':
                    known = None
                    if st2 and first_cur:
                        # the first build is where a listed finding acts (a dirty statement that ignored its discovered
                        # inputs ran beside their producer): attribute with the first build's state, not the second's
                        keep = self.last_model_before
                        self.last_model_before = first_model
                        known = self.attribute(first_cur['targets'], first_cur['started'], first_cur['files_before'], st2, need_same_run=False)
                        self.last_model_before = keep
                    self.add('C02', 'second run of the same build is not a no-op', dict(started=st2, phase=r2['phase'], err=r2['err'], targets=targets),
                             known=known)
                    self.stop = True

    def has_always_dirty(self, targets):
        for e in models.closure_edges(self.g, targets):
            if e['phony'] and not (e['exp'] or e['imp'] or e['oo'] or e.get('vals')) and key(e) not in self.files:
                return True
        return False

    def expand(self, ops):
        for op in ops:
            k = op['op']
            if not k.startswith('m_'):
                yield op
                continue
            self.labels.add(k)
            b_all = dict(op='build', sel=2, j=op['j'], k=1, sched=op['sched'])
            if k == 'm_swap_then_edit':
                seq = [dict(op='swap_hidden_same_content', a=op['a'], b=op['b']), b_all, dict(op='edit_recent_hidden'), b_all]
            elif k == 'm_rehide_then_edit':
                seq = [dict(op='rehide', a=op['a'], b=op['b'], c=op['c']), b_all, dict(op='edit_recent_hidden'), b_all]
            elif k == 'm_missing_oo_source':
                # a statement that is itself up to date waits for a dirty order-only producer, and another of its order-only
                # inputs - a plain source - has disappeared: must be reported before anything runs
                yield dict(op='add_oo', a=op['a'], b=op['b'])
                yield b_all
                yield dict(op='ctx_del_src')
                yield dict(op='ctx_edit_psrc', c=op['c'])
                ctx = getattr(self, 'macro_ctx', None)
                yield dict(b_all, targets=[ctx['X']]) if ctx else b_all
                continue
            elif k == 'm_partial_restat_then_noop':
                # the output of a restat statement really changes in a build that requests nothing else; the next time the
                # statement runs it reproduces its output, and only then is everything else built
                yield dict(op='ctx_restat_input', pick=op['a'], edit=True, c=op['c'])
                ctx = getattr(self, 'macro_ctx', None)
                if ctx:
                    yield dict(op='build', sel=0, j=1, k=1, sched=[], targets=[ctx['R']])
                    yield dict(op='ctx_restat_input', edit=False)
                yield b_all
                continue
            elif k == 'm_overlapping_failures':
                # more commands fail while running together than -k allows, with other work still waiting
                cmds_ = self.cmd_edges()
                yield dict(op='wipe_outs')
                # -k1 -j2 with three failing commands, or -k2 -j3 with four: the slots fill up with failing commands, the
                # budget is used up while one of them is still running, and something else is still waiting for a slot
                # (the manifest gains kk+2 independent statements that read one source each, all of which fail)
                kk = 1 + op['c'] % 2
                yield dict(op='add_ovf', n=kk + 2, a=op['a'])      # a change op of its own, so that every runner sees the new manifest
                n_ = len(self.cmd_edges())
                yield dict(op='build', sel=2, j=kk + 1, k=kk, sched=op['sched'],
                           faults=[(n_ - 1 - i, 1 + i, False) for i in range(kk + 2)])
                yield b_all
                continue
            elif k == 'm_alias_file_then_edit':
                seq = [dict(op='alias_file', a=op['a']), b_all, dict(op='ctx_edit_alias_src', c=op['c']), b_all]
            elif k == 'm_bloat_then_rebuild':
                # the log reaches the recompaction threshold, then an ordinary incremental build crosses it
                seq = [dict(op='bloat_log'), dict(op='edit', a=op['a'], c=5), b_all]
            else:  # a failing build followed by a build in which the cause is gone
                seq = [dict(op='edit', a=op['a'], c=op['c']), dict(b_all, faults=[(op['b'], 1 + op['c'], op['c'] % 2 == 0)]), b_all]
            for x in seq:
                yield x

    def run(self, ops):
        if not self.establish():
            return self.findings
        for op in self.expand(ops):
            if self.stop:
                break
            if op['op'] == 'build':
                self.build(op)
            else:
                self.apply_change(op)
        return self.findings


# ---------------------------------------------------------------------------------------------- C10 metamorphic
def to_declared(g):
    """variant B of a graph: every discovered (hidden) read is written as an implicit input, no discovery at all"""
    gb = copy.deepcopy(g)
    for e in gb['edges']:
        if e.get('hidden'):
            for h in e['hidden']:
                if h not in e['exp'] + e['imp']:
                    e['imp'].append(h)
                if h in e['oo']:
                    e['oo'].remove(h)
        e['hidden'] = []
        e['deps'] = ''
    return gb


def to_inlined(g):
    """variant B for C11: what the dyndep files say is written into the manifest directly; the dyndep file itself stays
    an order-only input so that its producer is still part of the build"""
    gb = copy.deepcopy(g)
    for e in gb['edges']:
        if e.get('dd'):
            for i in e.get('dd_ins', []):
                if i not in e['exp'] + e['imp']:
                    e['imp'].append(i)
            e['iouts'] = list(e.get('iouts', [])) + list(e.get('dd_outs', []))
            if e.get('dd_restat'):
                e['restat'] = True
            if e['dd'] not in e['oo'] and e['dd'] not in e['exp'] + e['imp']:
                e['oo'].append(e['dd'])
            e['dd'] = None
            e['dd_ins'], e['dd_outs'], e['dd_restat'] = [], [], False
    gb['dd_files_inlined'] = gb.pop('dd_files', {})
    return gb


def simrun_upstream_of_dd(g):
    """statements that produce a dyndep file, directly or through other statements"""
    prod = producer_map(g)
    out, todo = set(), [d for d, i in g.get('dd_files', {}).items() if i.get('produced')]
    while todo:
        e = prod.get(todo.pop())
        if e is None or key(e) in out:
            continue
        out.add(key(e))
        todo += e['exp'] + e['imp'] + e['oo'] + list(e.get('hidden', []))
    return out


SKIP_IN_C10 = ('wipe_deps', 'del_depfile', 'rehide', 'swap_hidden_same_content', 'edit_recent_hidden')


def run_metamorphic(simA, ops, transform=None, prop='C10', what='declared-implicit'):
    """C10: the same history on variant A (discovered deps) and variant B (declared implicit inputs).
    C11: variant A with dyndep files, variant B with their information inlined."""
    transform = transform or to_declared
    probe = simA.probe
    simB = Sim(probe, transform(simA.g))
    for dd, info in simA.g.get('dd_files', {}).items():
        if dd in simA.files and dd not in simB.files:
            simB.files[dd] = dict(simA.files[dd])
    # (the second variant's clock must not lag behind the files it was given: a copied dyndep file would otherwise look
    # newer than what the establishing builds produce - a false alarm of the thorough tier, 2 in 64 000 cases)
    simB.now = max([simB.now, simA.now] + [f_['m'] for f_ in simB.files.values()])
    try:
        if not simA.establish() or not simB.establish():
            return
        for op in simA.expand(ops):
            if simA.stop or simB.stop:
                break
            if op['op'] in SKIP_IN_C10 or op['op'].startswith('m_'):
                continue
            if op['op'] != 'build':
                simA.apply_change(op)
                # mirror the effect on B: same sources, same deletions, same command variants
                gb = transform(simA.g)
                simB.g = gb
                simB.now = max(simB.now, simA.now)
                for s in simA.g['srcs']:
                    if s in simA.files:
                        simB.files[s] = dict(simA.files[s])
                    else:
                        simB.files.pop(s, None)
                for e in simA.cmd_edges():
                    for o in all_outs(e):
                        if o not in simA.files:
                            simB.files.pop(o, None)
                for o in models.phony_outs(simA.g):      # a file that carries the name of an alias
                    if o in simA.files:
                        simB.files[o] = dict(simA.files[o])
                    else:
                        simB.files.pop(o, None)
                if op['op'] == 'drop_log':
                    es = simA.cmd_edges()
                    if es:
                        simB.drop_log_records(all_outs(es[op['a'] % len(es)]))
                continue
            if op.get('faults'):
                continue
            targets = simA.targets_for(op['sel'])
            nA = len(simA.findings)
            nB = len(simB.findings)
            simA.last_model_before = simA.model.clone()
            simB.last_model_before = simB.model.clone()
            simA.now = simB.now = max(simA.now, simB.now)
            mid = None
            if op.get('mid') and type(simA) is Sim and prop == 'C10':
                # (not for C11: an input that a dyndep file adds is looked at only once that file is loaded, so the two variants
                # may rightly see different versions of a file edited meanwhile)
                # a source (often a discovered header) is edited while the build runs, the same edit at the same wait in both
                # variants; this build is not compared (which command saw which version is a matter of timing), the run
                # that follows at once is: "changing it re-runs the command" holds for a change made at any moment
                ph = models.phony_outs(simA.g)
                exempt = set(r for e in simA.cmd_edges() if models.is_restat(e) or e['generator'] for r in models.true_reads(simA.g, e, ph))
                cand = [s_ for s_ in simA.g['srcs'] if s_ not in exempt and not s_.startswith('ddsrc') and s_ in simA.files]
                if cand:
                    s_ = cand[op['mid'][1] % len(cand)]
                    mid = [dict(at=op['mid'][0], path=s_, content=simA.new_content(s_, 5))]
            if mid:
                # (each variant's own oracles stay on: a listed finding that shows in this build - a dirty statement that
                # ignores its discovered inputs runs beside their producer - is attributed here, as in every other build)
                fbA, fbB = copy.deepcopy(simA.files), copy.deepcopy(simB.files)
                mbA, mbB = simA.last_model_before, simB.last_model_before
                rA = simA.invoke(targets, j=op['j'], k=op['k'], sched=op['sched'], mid_edits=mid)
                rB = simB.invoke(targets, j=op['j'], k=op['k'], sched=op['sched'], mid_edits=mid)
                if rA is None or rB is None or rA['status'] != 0 or rB['status'] != 0:
                    return
                # the run set of a build with an edit in it is not judged by the variant's own oracles, so a listed finding
                # that shows only there (a statement pruned after a restat no-op without its discovered inputs) is looked
                # for here: does a counterfactual model predict exactly what that variant ran?
                for sm, r_, fb_, mb_ in ((simA, rA, fbA, mbA), (simB, rB, fbB, mbB)):
                    st_ = sorted(ev['edge'] for ev in r_['trace'] if ev['ev'] == 'start')
                    pr_ = mb_.plan(sm.g, fb_, targets)
                    if pr_['error'] is None and sorted(pr_['run']) != st_:
                        keep = sm.last_model_before
                        sm.last_model_before = mb_
                        kn_ = sm.attribute(targets, st_, fb_, [])
                        sm.last_model_before = keep
                        if kn_:
                            sm.add(prop, 'build with an edit while it ran: run set as a listed finding predicts', dict(started=st_), known=kn_)
                kn = [f for f in simA.findings[nA:] + simB.findings[nB:] if f['known']]
                if kn:
                    for f in kn:
                        simA.add(prop, 'differs from the %s variant (attributed, build with an edit while it ran)' % what, dict(via=f['kind']), known=f['known'])
                    break
                if not (any(ev['ev'] == 'mid_edit' for ev in rA['trace']) and any(ev['ev'] == 'mid_edit' for ev in rB['trace'])):
                    # the edit did not happen in one of the variants (fewer waits than the chosen index): make it now in both
                    for sm in (simA, simB):
                        sm.write(mid[0]['path'], mid[0]['content'])
                else:
                    simA.labels.add('metamorphic_mid_build_edit')
                simA.now = simB.now = max(simA.now, simB.now)
                simA.last_model_before = simA.model.clone()
                simB.last_model_before = simB.model.clone()
                nA = len(simA.findings)
                nB = len(simB.findings)
            fbA0, fbB0 = copy.deepcopy(simA.files), copy.deepcopy(simB.files)
            rA = simA.invoke(targets, j=op['j'], k=op['k'], sched=op['sched'])
            rB = simB.invoke(targets, j=op['j'], k=op['k'], sched=op['sched'])
            if rA is None or rB is None:
                return
            simA.stats['builds'] += 1
            if any(f['known'] for f in simA.findings[nA:]):
                # the known finding D1 is exactly a place where A is allowed (recorded) to differ; stop here
                for f in simA.findings[nA:]:
                    if f['known']:
                        simA.add(prop, 'differs from the %s variant (attributed)' % what, dict(via=f['kind']), known=f['known'])
                break
            if any(f['known'] for f in simB.findings[nB:]):
                # ... and so is variant B when the recorded finding shows there (its own oracles attribute it)
                for f in simB.findings[nB:]:
                    if f['known']:
                        simA.add(prop, 'differs from the %s variant (attributed, seen in that variant)' % what, dict(via=f['kind']), known=f['known'])
                break
            stA = sorted(ev['edge'] for ev in rA['trace'] if ev['ev'] == 'start')
            stB = sorted(ev['edge'] for ev in rB['trace'] if ev['ev'] == 'start')
            if (rA['status'] == 0) != (rB['status'] == 0):
                # a listed finding may be the reason (a dirty statement that ignores its discovered inputs never reaches their
                # producer, whose missing source then goes unnoticed): does a counterfactual model predict exactly what the
                # succeeding variant ran?
                kn_ = None
                for sm, r_, st_, fb_ in ((simA, rA, stA, fbA0), (simB, rB, stB, fbB0)):
                    if r_['status'] == 0 and kn_ is None:
                        kn_ = sm.attribute(targets, st_, fb_, [])
                simA.add(prop, 'build result differs from the %s variant' % what, dict(A=dict(status=rA['status'], err=rA['err']),
                                                                                              B=dict(status=rB['status'], err=rB['err']), targets=targets), known=kn_)
                break
            if (stA != stB and prop == 'C11' and rA['status'] != 0 and 'missing and no known rule' in rA['err'] and 'missing and no known rule' in rB['err']
                    and not stB and all((simA.edge_by_key(k_) or {}).get('is_dd_producer') or k_ in simrun_upstream_of_dd(simA.g) for k_ in stA)):
                # a missing source behind an input that only a dyndep file reveals cannot be reported before that file has
                # been produced and read: the inlined manifest knows it at once, the dyndep build after running the producers
                simA.labels.add('missing_source_found_only_after_dyndep_load')
                break
            if stA != stB:
                simA.add(prop, 'commands run differ from the %s variant' % what, dict(A=stA, B=stB, targets=targets))
                break
            outs = [o for e in simA.cmd_edges() for o in all_outs(e) + models.dd_outs(simA.g, e)]
            diff = [o for o in outs if simA.files.get(o, {}).get('c') != simB.files.get(o, {}).get('c')]
            if diff:
                simA.add(prop, 'contents differ from the %s variant' % what, dict(outputs=diff, targets=targets))
                break
            if any(not h.startswith('s') for e in simA.g['edges'] for h in e.get('hidden', [])) and 0 < len(stA):
                simA.labels.add('generated_discovered_dep_rebuilt')
            if any(key(e) in stA for e in simA.g['edges'] if e.get('is_dd_producer')) and any(
                    i not in simA.g['srcs'] for e in simA.g['edges'] for i in models.dd_inputs(simA.g, e)):
                simA.labels.add('dyndep_built_and_adds_generated_input')
    finally:
        simB.close()


def run_late_targets(sim, ops):
    """work that enters the plan in the middle of a build: after the history, the producer of every dyndep file and the
    statements reached only through what those files add (incl. validations their producers request) are made dirty,
    then each bound statement is requested *alone* (so that nothing of this is a target of its own) with all oracles on,
    followed by the usual second run"""
    if not sim.establish():
        return
    for op in sim.expand(ops):
        if sim.stop:
            return
        if op['op'] == 'build':
            if not op.get('faults'):
                sim.build(op)
        else:
            sim.apply_change(op)
    if sim.findings or sim.stop:
        return
    g = sim.g
    bound = [e for e in g['edges'] if e.get('dd') and g.get('dd_files', {}).get(e['dd'], {}).get('produced')]
    if not bound:
        return
    n = 0
    for e in bound[:3]:
        late, late_vals = [], []
        for i in models.dd_inputs(g, e):
            pe = producer_map(g).get(i)
            if pe is not None:
                late.append(pe)
                late_vals += [producer_map(g)[v] for v in pe.get('vals', []) if producer_map(g).get(v) is not None]
        # pass 1: only the dyndep file's producer and the sources that the late validations alone read are dirty, so the
        #         bound statement and the producers of its added inputs stay clean while a validation has work to do
        # pass 2: the producer and everything the file adds are dirty
        # pass 3: as pass 2, and a generated order-only input that stands *before* the dyndep file in the statement's input list
        #         is dirty too and finishes first (the second running command completes first): the statement's inputs have
        #         been looked at once, up to the file, before the file inserts new inputs in front of the order-only ones
        for pass_ in (1, 2, 3):
            if sim.stop or any(not f['known'] for f in sim.findings):
                return
            sched_ = []
            if pass_ == 3:
                if not late:
                    continue
                prod_ = producer_map(g)
                idx_ = g['edges'].index(e)
                gen_oo = [o for o in e['oo'] if prod_.get(o) is not None and not prod_[o]['phony'] and o != e['dd']]
                if not gen_oo:
                    taken = set(e['exp'] + e['imp'] + e['oo'] + list(e.get('hidden', [])) + models.dd_inputs(g, e))
                    cand_ = [x['outs'][0] for x in g['edges'][:idx_] if not x['phony'] and not x.get('is_dd_producer') and x['outs'][0] not in taken
                             and x not in late and any(i in g['srcs'] for i in x['exp'] + x['imp'])]
                    if not cand_:
                        continue
                    e['oo'] = [cand_[0]] + list(e['oo'])
                    gen_oo = [cand_[0]]
                for o in gen_oo:
                    px = prod_[o]
                    ss = [i for i in px['exp'] + px['imp'] if i in g['srcs']]
                    if ss:
                        sim.write(ss[0], sim.new_content(ss[0], 9 + n))
                sched_ = [1, 1, 1, 1, 1, 1, 1, 1]
                sim.labels.add('late_order_only_input_before_dyndep_file_finishes_first')
            for x in g['edges']:
                if x.get('is_dd_producer') and key(x) == e['dd']:
                    sim.write(x['exp'][0], sim.new_content(x['exp'][0], 7 + 2 * n + pass_))
            others = set(i for x in g['edges'] if x not in late_vals for i in x['exp'] + x['imp'] + x.get('hidden', []))
            todo_ = late_vals if pass_ == 1 else late + late_vals
            touched = False
            for x in todo_:
                srcs_ = [i for i in x['exp'] + x['imp'] if i in g['srcs'] and (pass_ >= 2 or i not in others)]
                if srcs_:
                    sim.write(srcs_[0], sim.new_content(srcs_[0], 8 + 2 * n + pass_))
                    touched = True
            if pass_ == 1 and (n % 2 == 0) and not e['generator']:
                # ... and every other time the bound statement itself has a reason to run that only the log knows (its
                # command line changed), while none of its inputs is dirty
                e['variant'] = 'v%d' % (5 + n)
                touched = True
                sim.labels.add('late_bound_statement_command_changed')
            if pass_ == 1 and not touched:
                continue
            if late:
                sim.labels.add('late_planned_work')
            if late_vals:
                sim.labels.add('late_planned_validation')
                if pass_ == 1:
                    sim.labels.add('late_validation_dirty_consumer_clean')
            n += 1
            sim.build(dict(op='build', sel=0, j=(2 + n % 2) if pass_ == 3 else (1 + n % 2), k=1, sched=sched_, mid=[], targets=[key(e)]))


# ---------------------------------------------------------------------------------------------- C07 crash / interrupt
POINTS = ['start.lock', 'start.rsp', 'finish.extractdeps', 'finish.restat', 'finish.plan', 'finish.rsp', 'finish.log', 'finish.deps',
          'extractdeps.pre_remove', 'log.record.entry', 'deps.record.pre', 'log.recompact.pre_replace', 'replace.mid']


def check_recovery(sim, targets, what, detail):
    """after a crash / interrupt: the next invocation(s) must start normally and, once one succeeds, the tree must be
    identical to a clean build and a further run must be a no-op"""
    sim.synced = False
    ok = False
    for attempt in range(3):
        res = sim.invoke(targets, j=2, oracles=False)
        if res is None:
            return
        if res['phase'] in ('log', 'deps', 'parse'):
            sim.add('C07', 'next invocation does not start normally after %s' % what, dict(detail, phase=res['phase'], err=res['err']))
            return
        if res['status'] == 0:
            ok = True
            break
    if not ok:
        sim.add('C07', 'build does not succeed any more after %s' % what, dict(detail, err=res['err']))
        return
    cont = Content(sim.g, sim.files)
    stale = []
    for e in sim.closure_for_content(targets, {}):
        if e['phony']:
            continue
        for o in all_outs(e) + models.dd_outs(sim.g, e):
            if sim.files.get(o, {}).get('c') != cont.expected(o):
                stale.append(o)
    if stale:
        sim.add('C07', 'tree differs from a clean build after recovering from %s' % what, dict(detail, stale=stale))
        return
    if not sim.has_always_dirty(targets):
        r2 = sim.invoke(targets, j=1, oracles=False)
        if r2 is not None:
            st2 = [ev['edge'] for ev in r2['trace'] if ev['ev'] == 'start']
            if st2:
                sim.add('C07', 'build after recovery from %s is not converged' % what, dict(detail, started=st2))


def run_crash_history(sim, ops, spec):
    """spec: dict(mode='point'|'runner'|'interrupt', point=, hit=, n=, touched=[idx..])"""
    if not sim.establish():
        return
    ops = list(sim.expand(ops))
    # play the history; the LAST build op is the one that is stopped
    last_build = max([i for i, o in enumerate(ops) if o['op'] == 'build'] or [-1])
    if last_build < 0:
        return
    for i, op in enumerate(ops):
        if sim.stop:
            return
        if op['op'] != 'build':
            sim.apply_change(op)
            continue
        if i < last_build:
            if not op.get('faults'):
                sim.build(op)
            continue
        if any(f['known'] for f in sim.findings):
            return
        # make sure there is work to stop: every source changes
        for s_ in sim.g['srcs']:
            if not s_.startswith('ddsrc'):
                sim.write(s_, sim.new_content(s_, 5))
        targets = [key(e) for e in sim.g['edges']]
        extra = {}
        if spec['mode'] == 'point':
            extra['crash_point'] = dict(point=spec['point'], hit=spec['hit'])
        elif spec['mode'] == 'runner':
            extra['crash_runner_call'] = spec['n']
        else:
            extra['interrupt_at'] = spec['n']
            cmds = sim.cmd_edges()
            extra['touched_on_interrupt'] = [key(cmds[t % len(cmds)]) for t in spec.get('touched', [])] if cmds else []
        req = sim.request(targets, j=op['j'], k=1, sched=op['sched'], extra=extra)
        try:
            res = sim.execute(req)
        except ProbeDied as d:
            sim.add('C13', 'crash', 'SIM child died: ' + d.describe(), known=classify_died(sim.g, d))
            return
        sim.absorb(res)
        detail = dict(spec=spec, targets=targets)
        if spec['mode'] == 'interrupt':
            interrupted = any(ev['ev'] == 'interrupt' for ev in res['trace'])
            if not interrupted:
                sim.labels.add('stop_not_reached')
                # nothing was stopped (the build was over earlier): plain build, nothing to check here
                sim.synced = False
                return
            sim.labels.add('interrupted')
            iev = [ev for ev in res['trace'] if ev['ev'] == 'interrupt'][0]
            if res['status'] != 130:
                sim.add('C07', 'interrupted build does not report the interrupt status', dict(detail, status=res['status'], err=res['err']))
            if LOCK in sim.files:
                sim.add('C07', 'lock file left behind after an interrupt', detail)
            for rk in iev['running']:
                e = sim.edge_by_key(rk)
                touched = rk in extra['touched_on_interrupt']
                has_df = bool(models.depfile_path(e))
                for o in all_outs(e):
                    c = sim.files.get(o, {}).get('c', '')
                    if touched and c.startswith('partial:'):
                        sim.add('C07', 'output modified by an interrupted command was not removed', dict(detail, output=o, edge=rk))
                    elif has_df and o in sim.files:
                        sim.add('C07', 'output of an interrupted command with a depfile was not removed', dict(detail, output=o, edge=rk))
                if has_df and touched and models.depfile_path(e) in sim.files:
                    sim.add('C07', 'depfile of an interrupted command was not removed', dict(detail, edge=rk))
                if touched:
                    sim.labels.add('interrupt_with_partial_output')
            check_recovery(sim, targets, 'an interrupt', detail)
        else:
            if not res.get('crashed'):
                sim.labels.add('stop_not_reached')
                sim.synced = False
                return
            sim.labels.add('crashed_at_' + (spec.get('point') or 'runner_call'))
            running = [ev for ev in res['trace'] if ev['ev'] == 'start']
            fin = set(ev['edge'] for ev in res['trace'] if ev['ev'] == 'finish')
            if any(ev['edge'] not in fin for ev in running):
                sim.labels.add('crash_with_command_running')
            if fin:
                sim.labels.add('crash_between_persistence_steps')
            sim.files.pop(LOCK, None) if False else None
            check_recovery(sim, targets, 'a crash at %s' % (spec.get('point') or 'runner call %d' % spec.get('n', -1)), detail)
        return


def run_all_schedules(sim, ops):
    """establish, play the history, then make everything dirty and explore EVERY completion order of the full build"""
    if not sim.establish():
        return
    for op in sim.expand(ops):
        if sim.stop:
            return
        if op['op'] == 'build':
            if not op.get('faults'):
                sim.build(op)
        else:
            sim.apply_change(op)
    if sim.findings:
        return
    for s_ in sim.g['srcs']:
        sim.write(s_, sim.new_content(s_, 5))
    last = [o for o in ops if o['op'] == 'build']
    j = 2 + (len(ops) % 2)
    faults = None
    if last and last[-1].get('faults'):
        cmds = sim.cmd_edges()
        faults = {}
        for (a, code, touch) in last[-1]['faults'][:2]:       # up to two failing commands: with -k 1 they may overlap in time
            if cmds:
                e = cmds[a % len(cmds)]
                faults[key(e)] = dict(fail=code, fail_touch=False)
    sim.enumerate_build([key(e) for e in sim.g['edges']], j=j, k=(last[-1]['k'] if last else 1), faults=faults)
