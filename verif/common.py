"""Shared plumbing for all checks: tiers/seeds, evidence, known findings, replay files, worker pools."""
import collections, hashlib, json, multiprocessing, os, shutil, sys, tempfile, time, traceback

VERIF = os.path.dirname(os.path.dirname(os.path.abspath(__file__)))
EVID = os.environ.get("VERIF_EVIDENCE_DIR") or os.path.join(VERIF, "evidence")   # mutant runs (tools/mutrun.sh) keep theirs apart
REPLAYS = os.path.join(VERIF, "replays")
KNOWN_FILE = os.path.join(VERIF, "KNOWN_FINDINGS.json")
NCPU = int(os.environ.get("VERIF_JOBS", os.cpu_count() or 4))


def seed():
    try:
        return int(os.environ.get("VERIF_SEED", "1"))
    except ValueError:
        return 1


def sub_seed(*parts):
    """Deterministic 31-bit seed derived from VERIF_SEED and the given parts (never 0)."""
    h = hashlib.sha256(("%d|" % seed() + "|".join(str(p) for p in parts)).encode()).digest()
    return (int.from_bytes(h[:4], "big") & 0x7FFFFFFF) or 1


def digest(obj):
    if isinstance(obj, bytes):
        b = obj
    elif isinstance(obj, str):
        b = obj.encode("utf-8", "surrogateescape")
    else:
        b = json.dumps(obj, sort_keys=True, default=repr).encode()
    return hashlib.sha1(b).hexdigest()[:16]


def scratch_root():
    base = os.environ.get("VERIF_SCRATCH")
    if not base:
        base = "/dev/shm" if os.path.isdir("/dev/shm") and os.access("/dev/shm", os.W_OK) else tempfile.gettempdir()
    return tempfile.mkdtemp(prefix="verif-", dir=base)


class Known:
    """KNOWN_FINDINGS.json is read-only at run time. A failure is attributed to a finding only by a
    signature predicate evaluated in the check's own code; the file decides whether that signature is listed."""

    def __init__(self):
        try:
            self.entries = json.load(open(KNOWN_FILE))["findings"]
        except FileNotFoundError:
            self.entries = []

    def listed(self, prop, signature):
        for e in self.entries:
            if e.get("status") == "known" and signature == e.get("signature") and prop in e.get("properties", []):
                return e
        return None


class Result:
    """Mergeable per-worker result."""

    def __init__(self):
        self.evaluations = 0
        self.nontrivial = set()
        self.classes = collections.Counter()
        self.samples = []
        self.failures = []      # list of dict(case=..., why=..., sig=optional known signature)
        self.known_hits = collections.Counter()   # signature -> count
        self.known_examples = {}
        self.extra = collections.Counter()
        self.notes = []

    def case(self, case_obj, nontrivial, classes=(), sample=None):
        self.evaluations += 1
        if nontrivial:
            self.nontrivial.add(digest(case_obj))
        for c in classes:
            self.classes[c] += 1
        if sample is not None and len(self.samples) < 6:
            self.samples.append(sample)

    def merge(self, o):
        self.evaluations += o.evaluations
        self.nontrivial |= o.nontrivial
        self.classes.update(o.classes)
        for s in o.samples:
            if len(self.samples) < 8:
                self.samples.append(s)
        self.failures += o.failures
        self.known_hits.update(o.known_hits)
        for k, v in o.known_examples.items():
            self.known_examples.setdefault(k, v)
        self.extra.update(o.extra)
        self.notes += o.notes


_TASKS = []


def _worker_index(i):
    return _worker_entry(_TASKS[i])


def _worker_entry(args):
    fn, wargs = args
    try:
        return fn(*wargs)
    except Exception:
        r = Result()
        r.failures.append(dict(why="harness exception in worker", harness_error=True, trace=traceback.format_exc()))
        return r


def _task_child(i, conn):
    try:
        r = _worker_entry(_TASKS[i])
        conn.send(r)
    except BaseException:
        try:
            r = Result()
            r.failures.append(dict(why="harness exception in worker", harness_error=True, trace=traceback.format_exc()))
            conn.send(r)
        except Exception:
            pass
    finally:
        conn.close()
        os._exit(0)


def run_workers(fn, arglist, procs=None):
    """Run fn(*args) for each args tuple, each in a forked process of its own, at most `procs` at a time; returns the
    merged Result. A process that dies without delivering its result (killed from outside, out of memory) is run
    once more; a second death is a harness error, never a hang and never a verdict."""
    procs = procs or min(NCPU, len(arglist))
    total = Result()
    if procs <= 1 or len(arglist) == 1:
        for a in arglist:
            total.merge(_worker_entry((fn, a)))
        return total
    # tasks are inherited through fork (they may contain closures); only the result travels back
    global _TASKS
    _TASKS = [(fn, a) for a in arglist]
    ctx = multiprocessing.get_context("fork")
    from multiprocessing.connection import wait as mp_wait
    pending = list(range(len(_TASKS)))
    attempts = collections.Counter()
    running = {}        # conn -> (index, process)
    while pending or running:
        while pending and len(running) < procs:
            i = pending.pop(0)
            attempts[i] += 1
            rd, wr = ctx.Pipe(duplex=False)
            sys.stdout.flush()
            sys.stderr.flush()
            pr = ctx.Process(target=_task_child, args=(i, wr))
            pr.start()
            wr.close()
            running[rd] = (i, pr)
        for rd in mp_wait(list(running), timeout=5):
            i, pr = running.pop(rd)
            try:
                r = rd.recv()
            except (EOFError, OSError):
                r = None
            rd.close()
            pr.join()
            if r is None:
                if attempts[i] < 2:
                    pending.append(i)
                    total.notes.append("worker %d died (exit code %s) without a result: run again" % (i, pr.exitcode))
                else:
                    lost = Result()
                    lost.failures.append(dict(why="worker %d died twice (exit code %s) without a result" % (i, pr.exitcode), harness_error=True, trace=""))
                    total.merge(lost)
            else:
                total.merge(r)
    _TASKS = []
    return total


class Check:
    def __init__(self, prop, tier, level, rule, assumptions=()):
        self.prop, self.tier, self.level, self.rule = prop, tier, level, rule
        self.assumptions = list(assumptions)
        self.t0 = time.time()
        self.res = Result()
        self.known = Known()
        self.extra_cov = {}
        self.violation_paths = []
        self.known_lines = []

    def thorough(self):
        return self.tier == "thorough"

    def merge(self, r):
        self.res.merge(r)

    def save_replay(self, case, name=None):
        d = os.path.join(REPLAYS, self.prop)
        os.makedirs(d, exist_ok=True)
        if isinstance(case, bytes):
            p = os.path.join(d, (name or digest(case)) + ".bin")
            open(p, "wb").write(case)
        else:
            p = os.path.join(d, (name or digest(case)) + ".json")
            json.dump(case, open(p, "w"), indent=1, sort_keys=True, default=repr)
        return p

    def violation(self, case, why):
        if len(self.violation_paths) >= 5:   # enough to act on; every further one is only counted
            self.res.extra["violations_not_saved"] += 1
            return
        p = self.save_replay(dict(property=self.prop, why=why, case=case) if not isinstance(case, bytes) else case)
        self.violation_paths.append((p, why))

    def known_finding(self, signature, what):
        line = "KNOWN-FINDING: property=%s %s" % (self.prop, " ".join(what.split()))
        if line not in self.known_lines:
            self.known_lines.append(line)

    def finish(self):
        r = self.res
        harness = [f for f in r.failures if f.get("harness_error")]
        cov = dict(evaluations=r.evaluations, distinct_nontrivial=len(r.nontrivial), rule=self.rule,
                   samples=r.samples[:8], classes=dict(r.classes.most_common()),
                   excluded_known=dict(r.known_hits), **{k: v for k, v in r.extra.items()})
        cov.update(self.extra_cov)
        if r.notes:
            cov["notes"] = r.notes[:20]
        ev = dict(property_id=self.prop, tier=self.tier, seed=seed(), level=self.level, coverage=cov,
                  assumptions=self.assumptions, wall_s=round(time.time() - self.t0, 2),
                  violations=len(self.violation_paths))
        if harness:
            ev["coverage"]["harness_errors"] = [h["trace"][-1500:] for h in harness[:3]]
        os.makedirs(EVID, exist_ok=True)
        path = os.path.join(EVID, self.prop + ".json")
        tmp = path + ".tmp"
        json.dump(ev, open(tmp, "w"), indent=1, default=repr)
        os.replace(tmp, path)
        for l in self.known_lines:
            print(l)
        for p, why in self.violation_paths:
            print("VIOLATION property=%s replay=%s" % (self.prop, p))
            print("  why: %s" % (why[:600],))
        print("%s %s: evaluations=%d distinct_nontrivial=%d violations=%d known=%s wall=%.1fs" % (
            self.prop, self.tier, r.evaluations, len(r.nontrivial), len(self.violation_paths), dict(r.known_hits),
            time.time() - self.t0))
        if harness:
            print("HARNESS ERROR (not a property verdict):\n" + harness[0]["trace"], file=sys.stderr)
            return 2
        return 1 if self.violation_paths else 0


class ShrinkBudget:
    """Bounds the wall-clock time Hypothesis spends shrinking: once the budget after the first failure is used up,
    cases that have not failed before are not executed any more (they 'pass'), so the shrinker runs out of
    candidates quickly; cases that did fail keep failing, so the final replay of the minimal example is consistent."""

    def __init__(self, seconds=None):
        if seconds is None:
            seconds = 240 if os.environ.get("VERIF_TIER_EFFECTIVE") == "thorough" else 40
        self.seconds = seconds
        self.t_first = None
        self.failing = set()

    def skip(self, dg):
        return self.t_first is not None and time.time() - self.t_first > self.seconds and dg not in self.failing

    def failed(self, dg):
        self.failing.add(dg)
        if self.t_first is None:
            self.t_first = time.time()


def run_hypothesis(test, state, res):
    """Runs a @given test whose body records its (shrunk) failure in state['fail'] = (case, why) and raises.
    Any Hypothesis-level complaint about inconsistent replays is downgraded to the recorded failure, which the
    caller replays 3x itself before believing it."""
    import hypothesis.errors
    try:
        test()
    except Exception as e:
        if state.get('fail') is not None:
            case, why = state['fail']
            res.failures.append(dict(case=case, why=why))
        else:
            res.failures.append(dict(why="harness exception", harness_error=True, trace=traceback.format_exc()))
