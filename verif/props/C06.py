from . import simprops
PROP = "C06"


def run(tier):
    ck = simprops.run_prop(PROP, tier, n_quick=8000, n_thorough=240000)
    return ck.finish()


def replay(path):
    return simprops.replay(PROP, path)
