"""C06 — concurrency limits hold, no slot idles, and the build always finishes.
SIM: trace invariants over generated graphs x pools x -j x faults x schedules (see simprops).  E2E: the same through
the real binary, plus a GNU-make jobserver (fifo) with 0-3 tokens: never more commands than tokens+1 (and -j), and
every token is back in the fifo when ninja has exited - after success, failures, exit code 130 and -k."""
import errno, json, os, shutil, traceback
from hypothesis import given, settings, seed as hseed, HealthCheck, Phase, Verbosity, strategies as st
from .. import common, graphs, models, simrun, e2e
from ..models import key, all_outs
from . import simprops

from ..probe import ProbeDied

PROP = "C06"


class Fifo:
    def __init__(self, path, tokens):
        self.path = path
        os.mkfifo(path)
        self.fd = os.open(path, os.O_RDWR | os.O_NONBLOCK)
        os.write(self.fd, b"+" * tokens)
        self.tokens = tokens

    def count(self):
        n = 0
        while True:
            try:
                b = os.read(self.fd, 64)
            except OSError as e:
                if e.errno in (errno.EAGAIN, errno.EWOULDBLOCK):
                    break
                raise
            if not b:
                break
            n += len(b)
        return n

    def close(self):
        os.close(self.fd)
        os.unlink(self.path)


def run_jobserver_case(root, g, tokens, j, k, faults, sleepy, console=(), symloop=None, baddeps=None):
    """returns (finding or None, labels). console: picks of command statements that are put into the console pool.
    symloop: pick of a restat/generator statement whose command leaves its output as a link to itself (ninja's stat of
    the output fails: an error path of FinishCommand that is not a command failure)"""
    if console:
        import copy
        g = copy.deepcopy(g)
        cand = [e for e in g['edges'] if not e['phony'] and e.get('deps') != 'msvc' and not e.get('bare')]
        for i in console:
            if cand:
                cand[i % len(cand)]['pool'] = 'console'
    sim = e2e.RealSim(root, g)
    labels = set()
    fifo = None
    try:
        if not sim.establish():
            return None, labels
        cmds = sim.cmd_edges()
        if not cmds:
            return None, labels
        for e in cmds:
            for o in all_outs(e):
                sim.delete(o)
        if symloop is not None:
            # the error path only differs from a command failure for a command that holds a token of its own: some
            # other command has to be running when it ends
            tokens, sleepy = max(tokens, 1), True
        bad_deps = None
        if baddeps is not None:
            # a statement whose `deps` names a type ninja does not know: ninja only notices once the command has run, while
            # other commands hold tokens of their own
            cand = [e for e in cmds if not e['deps'] and not e.get('bare') and not e.get('is_dd_producer')]
            if cand:
                tokens, sleepy = max(tokens, 2), True
                bad_deps = cand[baddeps % len(cand)]
                bad_deps['deps_unknown'] = 'bogus'
                labels.add('jobserver_unknown_deps_type')
        fifo = Fifo(os.path.join(root, "jobserver.fifo"), tokens)
        sim.omit_j = True
        sim.extra_env = {"MAKEFLAGS": " -j%d --jobserver-auth=fifo:%s" % (tokens + 1, fifo.path),
                         # console commands run longer, so that they are still running when another command fails
                         "VERIF_SLEEP": ",".join("%s:%d" % (key(e), (70 if e.get('pool') == 'console' else 15) + 10 * (i % 3)) for i, e in enumerate(cmds))
                         if (sleepy or console) else ""}
        fl = {}
        for (a, code) in faults:
            fl[key(cmds[a % len(cmds)])] = dict(fail=code, fail_touch=False)
        stat_error = None
        if symloop is not None:
            cand = [e for e in cmds if (models.is_restat(e) or e.get('generator')) and key(e) not in fl]
            if cand:
                stat_error = key(cand[symloop % len(cand)])
                sim.extra_env["VERIF_SYMLOOP"] = "%s:1" % stat_error
                labels.add('jobserver_stat_error_after_command')
        targets = [key(e) for e in sim.g['edges']]
        req = sim.request(targets, j=j, k=k, faults=fl or None)
        sim.time_limit = 45
        try:
            res = sim.execute(req)
        except ProbeDied as d:
            detail = dict(tokens=tokens, j=j, k=k, faults=faults, manifest=graphs.manifest(sim.g)[-400:], died=d.died, output=d.stderr[-300:])
            if d.died.get('timeout'):
                return dict(kind="ninja did not terminate within %d s as a jobserver client (state %r when killed; every command had long finished)"
                            % (d.died.get('seconds', 0), d.died.get('state_when_killed')), detail=detail), labels
            return dict(kind="ninja died as a jobserver client: %s" % json.dumps(d.died), detail=detail), labels
        left = fifo.count()
        starts = [ev for ev in res['trace'] if ev['ev'] == 'start']
        if starts:
            labels.add('jobserver_build')
        if any(ev['running'] for ev in starts):
            labels.add('jobserver_parallel')
        if fl:
            labels.add('jobserver_failure')
        if any(c == 130 for _, c in faults):
            labels.add('jobserver_exit130')
        if fl and any(e.get('pool') == 'console' for e in cmds):
            labels.add('jobserver_failure_with_console_command')
        detail = dict(tokens=tokens, j=j, k=k, faults=faults, stat_error=stat_error, manifest=graphs.manifest(sim.g)[-400:], output=res['err'][-400:])
        if left != tokens:
            return dict(kind="jobserver tokens not all returned: %d in the fifo before, %d after ninja exited (status %d)" % (tokens, left, res['status']), detail=detail), labels
        for ev in starts:
            if len(ev['running']) + 1 > tokens + 1:
                return dict(kind="more commands running (%d) than jobserver tokens held + 1 (%d)" % (len(ev['running']) + 1, tokens + 1), detail=detail), labels
        seen = set()
        for ev in starts:
            if ev['edge'] in seen:
                return dict(kind="command of %s run twice in one invocation" % ev['edge'], detail=detail), labels
            seen.add(ev['edge'])
        if "stuck" in res['err']:
            return dict(kind="ninja reported 'stuck'", detail=detail), labels
        if bad_deps is not None and res['status'] == 0:
            return dict(kind="a statement with an unknown deps type was built without an error", detail=detail), labels
        if not fl and not stat_error and bad_deps is None and res['status'] != 0:
            return dict(kind="build under a jobserver failed without an injected fault (status %d)" % res['status'], detail=detail), labels
        return None, labels
    finally:
        if fifo:
            fifo.close()
        sim.close()


def run_load_case(root, g, j, maxload, load, k, faults):
    """-l N with a scripted load average (LD_PRELOAD shim): above N ninja may only start a command while nothing runs
    (and must still do that, or the build would never end)"""
    from .. import build
    sim = e2e.RealSim(root, g)
    labels = set()
    try:
        if not sim.establish():
            return None, labels
        cmds = sim.cmd_edges()
        if not cmds:
            return None, labels
        for e in cmds:
            for o in all_outs(e):
                sim.delete(o)
        lf = os.path.join(root, "loadavg.%d" % os.getpid())
        with open(lf, "w") as f:
            f.write("%.2f\n" % load)
        sim.extra_env = {"LD_PRELOAD": build.c_tool("loadavg_shim", ("-shared", "-fPIC")), "VERIF_LOADAVG_FILE": lf,
                         "VERIF_SLEEP": ",".join("%s:%d" % (key(e), 15 + 10 * (i % 3)) for i, e in enumerate(cmds))}
        sim.extra_args = ["-l", "%g" % maxload]
        fl = {}
        for (a, code) in faults:
            fl[key(cmds[a % len(cmds)])] = dict(fail=code, fail_touch=False)
        targets = [key(e) for e in sim.g['edges']]
        req = sim.request(targets, j=j, k=k, faults=fl or None)
        sim.time_limit = 45
        detail = dict(j=j, l=maxload, load=load, k=k, faults=faults, manifest=graphs.manifest(sim.g)[-400:])
        try:
            res = sim.execute(req)
        except ProbeDied as d:
            detail.update(died=d.died, output=d.stderr[-300:])
            if d.died.get('timeout'):
                return dict(kind="ninja -l did not terminate within %d s (state %r when killed)" % (d.died.get('seconds', 0), d.died.get('state_when_killed')),
                            detail=detail), labels
            return dict(kind="ninja -l died: %s" % json.dumps(d.died), detail=detail), labels
        finally:
            try:
                os.unlink(lf)
            except OSError:
                pass
        detail['output'] = res['err'][-400:]
        starts = [ev for ev in res['trace'] if ev['ev'] == 'start']
        # the manual: "do not start new jobs if the load average is greater than N" - only that is asserted (the code is
        # stricter: it starts trunc(N - load) commands per round)
        saturated = load > maxload
        limit = 1 if saturated else j
        if starts:
            labels.add('load_build')
        if saturated:
            labels.add('load_saturated')
        if any(ev['running'] for ev in starts):
            labels.add('load_parallel')
        for ev in starts:
            if len(ev['running']) + 1 > limit:
                return dict(kind="more commands running (%d) than the load limit allows (%d: -j%d, -l %g at load %g)" % (
                    len(ev['running']) + 1, limit, j, maxload, load), detail=detail), labels
        seen = set()
        for ev in starts:
            if ev['edge'] in seen:
                return dict(kind="command of %s run twice in one invocation" % ev['edge'], detail=detail), labels
            seen.add(ev['edge'])
        if "stuck" in res['err']:
            return dict(kind="ninja reported 'stuck'", detail=detail), labels
        if not fl:
            if res['status'] != 0:
                return dict(kind="build under -l failed without an injected fault (status %d)" % res['status'], detail=detail), labels
            missing = sorted(key(e) for e in cmds if key(e) not in seen)
            if missing:
                return dict(kind="build under -l ended with success without running %s" % missing, detail=detail), labels
        elif res['status'] == 0:
            return dict(kind="build under -l with a failing command ended with success", detail=detail), labels
        return None, labels
    finally:
        sim.close()


def plain_edge(out, exp, pool=''):
    return dict(outs=[out], iouts=[], phony=False, exp=list(exp), imp=[], oo=[], vals=[], restat=False, generator=False, deps='',
                hidden=[], variant='v0', pool=pool, rsp=None, dd=None, depfile_layout=0)


def run_wide_case(root, n, j, depth, pooled, closeout, sleeps, tail):
    """n independent commands (some in a pool of the given depth) and `tail` commands behind the first one, built from
    scratch with -j.  With `closeout` every command lets go of ninja's pipe at once and keeps running for sleeps[i] ms:
    ninja sees end-of-file long before the process is gone, several of them in one wake-up while it waits for another
    one to exit - a process that is not reaped yet still occupies its slot (and its pool's)."""
    g = dict(srcs=['s0'], pools=({'p1': depth} if pooled else {}), edges=[])
    for i in range(n):
        g['edges'].append(plain_edge('w%d' % i, ['s0'], 'p1' if i in pooled else ''))
    for i in range(tail):
        g['edges'].append(plain_edge('t%d' % i, ['w0']))
    sim = e2e.RealSim(root, g)
    labels = set()
    try:
        sim.write('s0', 'x')
        cmds = sim.cmd_edges()
        sim.extra_env = {"VERIF_SLEEP": ",".join("%s:%d" % (key(e), sleeps[i % len(sleeps)]) for i, e in enumerate(cmds))}
        if closeout:
            sim.extra_env["VERIF_CLOSEOUT"] = ",".join("%s:1" % key(e) for e in cmds)
            sim.vtool = "exec " + sim.vtool
            labels.add('wide_commands_close_their_output_early')
        req = sim.request([key(e) for e in g['edges']], j=j, k=1)
        sim.time_limit = 45
        detail = dict(n=n, j=j, depth=depth, pooled=sorted(pooled), closeout=closeout, sleeps=sleeps, tail=tail)
        try:
            res = sim.execute(req)
        except ProbeDied as d:
            detail.update(died=d.died, output=d.stderr[-300:])
            return dict(kind="ninja died or did not terminate on a wide graph: %s" % json.dumps(d.died), detail=detail), labels
        starts = [ev for ev in res['trace'] if ev['ev'] == 'start']
        labels.add('wide_build')
        if any(len(ev['running']) + 1 == j for ev in starts):
            labels.add('wide_saturated')
        pool_of = {key(e): e['pool'] for e in g['edges']}
        for ev in starts:
            if len(ev['running']) + 1 > j:
                return dict(kind="more commands alive (%d) than -j%d allows (commands that closed their output are still processes)" % (len(ev['running']) + 1, j),
                            detail=dict(detail, running=ev['running'], starting=ev['edge'])), labels
            if pool_of.get(ev['edge']) and 1 + sum(1 for r in ev['running'] if pool_of.get(r) == pool_of[ev['edge']]) > depth:
                return dict(kind="more commands of pool p1 alive than its depth %d" % depth, detail=dict(detail, running=ev['running'], starting=ev['edge'])), labels
        seen = [ev['edge'] for ev in starts]
        if len(seen) != len(set(seen)):
            return dict(kind="a command ran twice in one invocation", detail=dict(detail, starts=seen)), labels
        if res['status'] != 0 or sorted(seen) != sorted(key(e) for e in cmds):
            return dict(kind="wide build without faults: status %d, ran %d of %d commands" % (res['status'], len(seen), len(cmds)), detail=dict(detail, output=res['err'][-300:])), labels
        return None, labels
    finally:
        sim.close()


def wide_worker(widx, n_examples):
    res = common.Result()
    state = {}
    budget = common.ShrinkBudget()
    root = common.scratch_root()
    try:
        @hseed(common.sub_seed(PROP, 'wide', widx))
        @settings(max_examples=n_examples, deadline=None, database=None, suppress_health_check=list(HealthCheck),
                  phases=[Phase.generate, Phase.shrink], verbosity=Verbosity.quiet, report_multiple_bugs=False)
        @given(st.integers(4, 9), st.sampled_from([2, 3, 3, 4]), st.integers(1, 2), st.lists(st.integers(0, 8), max_size=4, unique=True),
               st.sampled_from([True, True, True, False]), st.lists(st.sampled_from([20, 40, 60, 90, 120, 150]), min_size=2, max_size=5), st.integers(0, 2))
        def test(n, j, depth, pooled, closeout, sleeps, tail):
            pooled = [i for i in pooled if i < n]
            case = dict(kind='wide', n=n, j=j, depth=depth, pooled=pooled, closeout=closeout, sleeps=sleeps, tail=tail)
            dg = common.digest(case)
            if budget.skip(dg):
                return
            f, labels = run_wide_case(root, n, j, depth, pooled, closeout, sleeps, tail)
            res.case(case, 'wide_saturated' in labels, ['wide:' + l for l in labels], sample=case if closeout else None)
            if f:
                state['fail'] = (case, "[real binary, wide graph] %s %s" % (f['kind'], json.dumps(f['detail'], default=repr)[:1200]))
                budget.failed(dg)
                raise AssertionError()
        common.run_hypothesis(test, state, res)
    finally:
        shutil.rmtree(root, ignore_errors=True)
    return res


def replay_wide(case):
    root = common.scratch_root()
    try:
        f, _ = run_wide_case(root, case['n'], case['j'], case['depth'], case['pooled'], case['closeout'], case['sleeps'], case['tail'])
    finally:
        shutil.rmtree(root, ignore_errors=True)
    return f['kind'] if f else None


def load_worker(widx, n_examples):
    res = common.Result()
    state = {}
    budget = common.ShrinkBudget()
    root = common.scratch_root()
    try:
        @hseed(common.sub_seed(PROP, 'load', widx))
        @settings(max_examples=n_examples, deadline=None, database=None, suppress_health_check=list(HealthCheck),
                  phases=[Phase.generate, Phase.shrink], verbosity=Verbosity.quiet, report_multiple_bugs=False)
        @given(graphs.graphs(max_edges=6, features=dict(unordered_hidden=False)), st.sampled_from([2, 3, 8]), st.sampled_from([1, 2, 2.5, 4]),
               st.sampled_from([0, 0.5, 1.1, 2.6, 4.5, 7, 7]), st.sampled_from([1, 1, 2, 0]),
               st.lists(st.tuples(st.integers(0, 20), st.sampled_from([1, 2, 255])), max_size=1))
        def test(g, j, maxload, load, k, faults):
            case = dict(g=g, j=j, maxload=maxload, load=load, k=k, faults=[list(f) for f in faults], kind='load')
            dg = common.digest(case)
            if budget.skip(dg):
                return
            f, labels = run_load_case(root, g, j, maxload, load, k, faults)
            res.case(case, 'load_build' in labels and ('load_saturated' in labels or 'load_parallel' in labels), ['load:' + l for l in labels],
                     sample=dict(j=j, l=maxload, load=load, k=k, faults=case['faults']) if 'load_saturated' in labels else None)
            if f:
                state['fail'] = (case, "[real binary, -l] %s %s" % (f['kind'], json.dumps(f['detail'], default=repr)[:1200]))
                budget.failed(dg)
                raise AssertionError()
        common.run_hypothesis(test, state, res)
    finally:
        shutil.rmtree(root, ignore_errors=True)
    return res


def replay_load(case):
    root = common.scratch_root()
    try:
        f, _ = run_load_case(root, case['g'], case['j'], case['maxload'], case['load'], case['k'], [tuple(x) for x in case['faults']])
    finally:
        shutil.rmtree(root, ignore_errors=True)
    return f['kind'] if f else None


def jobserver_worker(widx, n_examples):
    res = common.Result()
    state = {}
    budget = common.ShrinkBudget()
    root = common.scratch_root()
    try:
        @hseed(common.sub_seed(PROP, 'js', widx))
        @settings(max_examples=n_examples, deadline=None, database=None, suppress_health_check=list(HealthCheck),
                  phases=[Phase.generate, Phase.shrink], verbosity=Verbosity.quiet, report_multiple_bugs=False)
        @given(graphs.graphs(max_edges=6, features=dict(unordered_hidden=False)), st.integers(0, 3), st.sampled_from([1, 2, 3, 8]), st.sampled_from([1, 2, 0]),
               st.lists(st.tuples(st.integers(0, 20), st.sampled_from([1, 2, 130, 130, 255])), max_size=2), st.booleans(),
               st.one_of(st.just([]), st.just([]), st.lists(st.integers(0, 20), min_size=1, max_size=2)),
               st.one_of(st.none(), st.none(), st.integers(0, 20)), st.one_of(st.none(), st.none(), st.none(), st.integers(0, 20)))
        def test(g, tokens, j, k, faults, sleepy, console, symloop, baddeps):
            case = dict(g=g, tokens=tokens, j=j, k=k, faults=[list(f) for f in faults], sleepy=sleepy, console=console, symloop=symloop, baddeps=baddeps)
            dg = common.digest(case)
            if budget.skip(dg):
                return
            f, labels = run_jobserver_case(root, g, tokens, j, k, faults, sleepy, console, symloop, baddeps)
            res.case(case, 'jobserver_build' in labels and (tokens > 0 or bool(faults)), ['js:' + l for l in labels],
                     sample=dict(tokens=tokens, j=j, k=k, faults=case['faults']) if 'jobserver_failure' in labels else None)
            if f:
                state['fail'] = (case, "[real binary, jobserver] %s %s" % (f['kind'], json.dumps(f['detail'], default=repr)[:1200]))
                budget.failed(dg)
                raise AssertionError()
        common.run_hypothesis(test, state, res)
    finally:
        shutil.rmtree(root, ignore_errors=True)
    return res


def replay_js(case):
    root = common.scratch_root()
    try:
        f, _ = run_jobserver_case(root, case['g'], case['tokens'], case['j'], case['k'], [tuple(x) for x in case['faults']], case['sleepy'],
                                  case.get('console', ()), case.get('symloop'), case.get('baddeps'))
    finally:
        shutil.rmtree(root, ignore_errors=True)
    return f['kind'] if f else None


def run(tier):
    ck = simprops.run_prop(PROP, tier, n_quick=6000, n_thorough=80000, e2e=(400, 5000), all_schedules=(600, 10000), late_targets=(500, 6000))
    # saved jobserver cases first (a fixed defect that comes back shows within a minute)
    import glob
    for path in sorted(glob.glob(os.path.join(common.VERIF, 'regress', '*_C06js_*.json'))):
        case = json.load(open(path))['case']
        why = replay_js(case)
        ck.extra_cov['jobserver_regression_cases_replayed'] = ck.extra_cov.get('jobserver_regression_cases_replayed', 0) + 1
        if why:
            ck.violation(case, "regression file %s: [real binary, jobserver] %s" % (os.path.basename(path), why))
    r = common.run_workers(jobserver_worker, [(w, (800 if tier == 'thorough' else 25)) for w in range(common.NCPU)])
    ck.merge(r)
    for f in r.failures:
        if f.get('harness_error'):
            continue
        fails = sum(1 for _ in range(3) if replay_js(f['case']))
        if fails == 3:
            ck.violation(f['case'], f['why'])
        else:
            ck.res.notes.append("FLAKY %d/3: %s" % (fails, f['why'][:200]))
    rl = common.run_workers(load_worker, [(w, (400 if tier == 'thorough' else 12)) for w in range(common.NCPU)])
    ck.merge(rl)
    for f in rl.failures:
        if f.get('harness_error'):
            continue
        fails = sum(1 for _ in range(3) if replay_load(f['case']))
        if fails == 3:
            ck.violation(f['case'], f['why'])
        else:
            ck.res.notes.append("FLAKY %d/3: %s" % (fails, f['why'][:200]))
    rw = common.run_workers(wide_worker, [(w, (150 if tier == 'thorough' else 6)) for w in range(common.NCPU)])
    ck.merge(rw)
    for f in rw.failures:
        if f.get('harness_error'):
            continue
        fails = sum(1 for _ in range(3) if replay_wide(f['case']))
        if fails == 3:
            ck.violation(f['case'], f['why'])
        else:
            ck.res.notes.append("FLAKY %d/3: %s" % (fails, f['why'][:200]))
    ck.rule += (" E2E wide part: 4-9 independent commands (some in a pool of depth 1-2), -j2..4, from scratch; in three of four cases every command "
                "closes its stdout/stderr at once and keeps running 20-150 ms: the number of live commands at every start must stay <= -j and <= the pool depth.")
    ck.rule += (" E2E load-limit part: the real binary with -l N and a scripted load average (LD_PRELOAD shim for getloadavg): with spare capacity "
                "trunc(N - load) <= 0 never two commands at once, yet the build ends and runs everything; otherwise concurrency <= -j.")
    ck.rule += (" E2E jobserver part: generated graph built from scratch by the real binary as a client of a fifo jobserver with 0-3 tokens, -j 1..8, -k, "
                "injected failures incl. exit code 130; the fifo must hold all tokens afterwards and concurrency must stay <= tokens+1.")
    return ck.finish()


def replay(path):
    j = json.load(open(path))
    case = j.get('case', j)
    if case.get('kind') in ('load', 'wide'):
        why = replay_load(case) if case['kind'] == 'load' else replay_wide(case)
        if why:
            print("finding:", why)
            print("VIOLATION property=%s replay=%s" % (PROP, path))
            return 1
        print("replay: no violation")
        return 0
    if 'tokens' in case:
        why = replay_js(case)
        if why:
            print("finding:", why)
            print("VIOLATION property=%s replay=%s" % (PROP, path))
            return 1
        print("replay: no violation")
        return 0
    return simprops.replay(PROP, path)
