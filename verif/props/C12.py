"""C12 — manifest text means what the manual says.
Grammar-based generator of valid multi-file manifests (shadowing at every scope incl. reserved rule variables,
all $-escapes, continuations, CRLF, nested include/subninja, pools, defaults, dyndep bindings, validations,
implicit outputs, legacy phony self-references) plus single-token mutations; differential against the reference
evaluator M-manifest (verif/mref.py): accept/reject agree, full graph dump equal, file:line of diagnostics equal."""
import json, os, re, traceback
from hypothesis import given, settings, seed as hseed, HealthCheck, Phase, Verbosity, strategies as st
from .. import common, mref
from ..probe import Probe, ProbeDied

PROP = "C12"
VARS = [b'x', b'y', b'flags', b'description', b'command', b'pool', b'depfile', b'restat', b'out', b'in']
RULEKEYS = [b'description', b'depfile', b'deps', b'generator', b'restat', b'pool', b'msvc_deps_prefix']


@st.composite
def value_tokens(draw, allow_in_out=True):
    n = draw(st.integers(0, 4))
    parts = []
    for _ in range(n):
        k = draw(st.integers(0, 9))
        if k <= 2:
            parts.append(draw(st.sampled_from([b'foo', b'bar baz', b'a:b', b'p|q', b'-O2', b'#h', b'  sp', b'\xc3\xa9'])))
        elif k == 3:
            parts.append(b'$' + draw(st.sampled_from([b'x', b'y', b'flags', b'description', b'pool'])))
        elif k == 4:
            parts.append(b'${' + draw(st.sampled_from(VARS)) + b'}')
        elif k == 5:
            parts.append(b'$$')
        elif k == 6:
            parts.append(b'$ ')
        elif k == 7:
            parts.append(b'$:')
        elif k == 8 and allow_in_out:
            parts.append(draw(st.sampled_from([b'$in', b'$out', b'${in_newline}'])))
        else:
            parts.append(draw(st.sampled_from([b'$\n    ', b'$x.c', b'$y-z'])))
    return b''.join(parts)


@st.composite
def path_src(draw, prefix):
    tail = draw(st.sampled_from([b'', b'.o', b'/d', b'/./e', b'/../f', b'//g', b'$ h', b'$:i', b'$x', b'${y}k', b'$$', b'/',
                                  b'/.', b'/..', b'/sub/..', b'/../..', b'/./.', b'/..x', b'/...', b'/..x/y', b'/.../z']))
    return prefix + tail


@st.composite
def file_body(draw, fid, depth, counter, rules_visible, pools_visible):
    lines, my_rules, subfiles = [], [], {}
    for _ in range(draw(st.integers(1, 7))):
        k = draw(st.integers(0, 11))
        if k <= 2:
            lines.append(draw(st.sampled_from(VARS)) + b' = ' + draw(value_tokens(False)) + b'\n')
        elif k <= 4:
            name = b'r%d_%d' % (fid, len(my_rules))
            body = b'rule ' + name + b'\n  command = cmd ' + draw(value_tokens()) + b'\n'
            for rk in draw(st.lists(st.sampled_from(RULEKEYS), max_size=3, unique=True)):
                if rk == b'pool':
                    body += b'  pool = ' + draw(st.sampled_from([b'', b'console'] + pools_visible + [b'$pool'])) + b'\n'
                else:
                    body += b'  ' + rk + b' = ' + draw(value_tokens()) + b'\n'
            if draw(st.integers(0, 5)) == 0:
                body += b'  rspfile = $out.rsp\n  rspfile_content = ' + (draw(value_tokens()) or b'$in') + b' .\n'
            lines.append(body)
            my_rules.append(name)
        elif k <= 8:
            rule = draw(st.sampled_from(rules_visible + my_rules + [b'phony']))
            counter[0] += 1
            oid = counter[0]
            outs = [draw(path_src(b'o%d' % oid))]
            if draw(st.integers(0, 3)) == 0:
                outs.append(draw(path_src(b'o%db' % oid)))
            iouts = [draw(path_src(b'io%d' % oid))] if draw(st.integers(0, 4)) == 0 else []

            def some(lo, hi, pfx):
                return [draw(path_src(pfx + (b'%d' % draw(st.integers(0, 4))))) for _ in range(draw(st.integers(lo, hi)))]
            ins, imp, oo, vals = some(0, 2, b's'), some(0, 1, b'h'), some(0, 1, b'q'), some(0, 1, b'v')
            l = b'build ' + b' '.join(outs)
            if iouts:
                l += b' | ' + b' '.join(iouts)
            l += b': ' + rule + b' ' + b' '.join(ins)
            if imp:
                l += b' | ' + b' '.join(imp)
            if oo:
                l += b' || ' + b' '.join(oo)
            if vals:
                l += b' |@ ' + b' '.join(vals)
            if rule == b'phony' and draw(st.integers(0, 1)) == 0:
                # legacy self-references at any position of the explicit and of the order-only section, possibly repeated
                # and followed by further inputs (the filter has to keep the section boundaries right in every case)
                selfref = outs[0]
                n_exp, n_oo = draw(st.integers(0, 2)), draw(st.integers(0, 2))
                if n_exp + n_oo == 0:
                    n_exp = 1
                oo2 = oo + some(0, 1, b'q')
                exp_items = draw(st.permutations(ins + [selfref] * n_exp))
                oo_items = draw(st.permutations(oo2 + [selfref] * n_oo))
                l = b'build ' + selfref + b': phony ' + b' '.join(exp_items)
                if oo_items:
                    l += b' || ' + b' '.join(oo_items)
            l += b'\n'
            if ins and draw(st.integers(0, 6)) == 0:
                l += b'  dyndep = ' + draw(st.sampled_from(ins + [b'nosuch'])) + b'\n'
            for bk in draw(st.lists(st.sampled_from(VARS + [b'description', b'restat']), max_size=2, unique=True)):
                if bk == b'pool':
                    l += b'  pool = ' + draw(st.sampled_from([b'', b'console'] + pools_visible)) + b'\n'
                elif bk in (b'in', b'out'):
                    l += b'  ' + bk + b' = shadow\n'
                else:
                    l += b'  ' + bk + b' = ' + draw(value_tokens(False)) + b'\n'
            lines.append(l)
        elif k == 9 and depth < 2:
            kw = draw(st.sampled_from([b'include', b'subninja']))
            counter[1] += 1
            name = b'f%d.ninja' % counter[1]
            body, sub = draw(file_body(counter[1], depth + 1, counter, rules_visible + my_rules, pools_visible))
            subfiles[name] = body
            subfiles.update(sub)
            lines.append(kw + b' ' + name + b'\n')
        elif k == 10:
            pn = b'p%d_%d' % (fid, len(pools_visible))
            if pn not in pools_visible:
                lines.append(b'pool ' + pn + b'\n  depth = %d\n' % draw(st.integers(0, 4)))
                pools_visible = pools_visible + [pn]
        elif k == 11 and draw(st.booleans()):
            lines.append(draw(st.sampled_from([b'ninja_required_version = 1.14\n', b'ninja_required_version = 1.3\n', b'z = a$^b\n',
                                               b'default o1\n', b'default nosuch\n'])))
        else:
            lines.append(draw(st.sampled_from([b'# comment\n', b'\n', b'   \n', b'  # indented comment\n'])))
    return b''.join(lines), subfiles


@st.composite
def programs(draw):
    counter = [0, 0]
    body, subs = draw(file_body(0, 0, counter, [], []))
    files = {b'build.ninja': body}
    files.update(subs)
    if draw(st.booleans()):
        files = {k: v.replace(b'\n', b'\r\n') if draw(st.integers(0, 3)) == 0 else v for k, v in files.items()}
    return files


ALPHABET = [b'', b'build', b'rule', b':', b'|', b'||', b'|@', b'=', b'$', b'\n', b'  ', b'\t', b'x', b'default', b'pool', b'include',
            b'subninja', b'#', b'$\n', b'\r\n', b'${', b'}']


def mutate(files, mpos, mkind, which):
    names = sorted(files)
    fname = names[which % len(names)]
    toks = re.findall(rb'\$\{[^}]*\}|\$.|[A-Za-z0-9_.\-]+|\r?\n|[ ]+|.', files[fname], re.S)
    if not toks:
        return None
    i = mpos % len(toks)
    if mkind < len(ALPHABET):
        toks[i] = ALPHABET[mkind]
    elif mkind < 26:
        toks[i] = toks[i] + toks[i]
    else:
        toks[i:i + 2] = reversed(toks[i:i + 2])
    f2 = dict(files)
    f2[fname] = b''.join(toks)
    return f2


def make_ninja(probe):
    def ninja(files, phonycycle_err):
        try:
            fs = {k.decode('utf-8'): v.decode('utf-8') for k, v in files.items()}
        except UnicodeDecodeError:
            return {'skip': True}
        try:
            return probe.request(dict(kind='manifest', files=fs, main='build.ninja', phonycycle_err=phonycycle_err))
        except ProbeDied as d:
            if d.is_fatal_exit():
                return {'fatal': d.stderr.strip().splitlines()[-1] if d.stderr.strip() else 'fatal'}
            return {'died': d.died, 'stderr': d.stderr[-1500:]}
    return ninja


def check_one(files, ninja, known, stats):
    """returns None or (why, known_signature)"""
    try:
        for v in files.values():
            v.decode('utf-8')
    except UnicodeDecodeError:
        stats['skipped_not_utf8'] += 1
        return None
    for pc in (False, True):
        d, r, n = mref.compare(files, ninja, phonycycle_err=pc)
        if n.get('skip'):
            return None
        if d is None and n.get('ok'):
            for e in n['edges']:
                if not e.get('symmetric', True):
                    d = 'graph not symmetric (in/out edge links) for %r' % e['outs']
        if d is None:
            if 'uncertain' in r:
                stats['skipped_undetermined: ' + r['uncertain']] += 1      # counted, not compared
            else:
                stats['ref_accept' if r.get('ok') else 'ref_reject'] += 1
            continue
        # attribute to listed findings through the reference's counterfactual switches only
        for sig, kw in (('D6_phony_selfref_filter_order_only_count', dict(quirk_d6=True)), ('D13_file_scope_beats_rule_without_own_scope', dict(quirk_d13=True)),
                        ('D6+D13', dict(quirk_d6=True, quirk_d13=True))):
            d2, _, _ = mref.compare(files, ninja, phonycycle_err=pc, **kw)
            if d2 is None:
                return (describe(d, r, n), sig)
        return (describe(d, r, n), None)
    return None


def describe(d, r, n):
    s = d
    if not r.get('ok', True) or not n.get('ok', True):
        s += " | reference: %s | ninja: %s" % (r.get('err') or r.get('fatal') or ('accepts' if r.get('ok') else r), n.get('err') or n.get('fatal') or ('accepts' if n.get('ok') else n))
    return s[:1500]


def worker(widx, n_examples):
    res = common.Result()
    known = common.Known()
    state = {}
    budget = common.ShrinkBudget()
    with Probe("fast") as pf, Probe("san") as ps:
        nf, ns = make_ninja(pf), make_ninja(ps)

        @hseed(common.sub_seed(PROP, widx))
        @settings(max_examples=n_examples, deadline=None, database=None, suppress_health_check=list(HealthCheck),
                  phases=[Phase.generate, Phase.shrink], verbosity=Verbosity.quiet, report_multiple_bugs=False)
        @given(programs(), st.lists(st.tuples(st.integers(0, 10 ** 6), st.integers(0, 30), st.integers(0, 5)), min_size=0, max_size=4))
        def test(files, muts):
            case = dict(files={k.decode('latin-1'): v.decode('latin-1') for k, v in files.items()}, muts=muts)
            dg = common.digest(case)
            if budget.skip(dg):
                return
            ninja = ns if int(dg, 16) % 8 == 0 else nf
            variants = [('valid', files)]
            for (mpos, mkind, which) in muts:
                f2 = mutate(files, mpos, mkind, which)
                if f2 is not None:
                    variants.append(('mutant', f2))
            text = b''.join(files.values())
            nontrivial = len(files) >= 2 and (b'rule ' in text) and any(text.count(v + b' =') >= 2 for v in VARS)
            res.case(case, nontrivial, ['files>=2'] if len(files) >= 2 else [],
                     sample={k.decode('latin-1'): v.decode('latin-1')[:400] for k, v in files.items()} if nontrivial else None)
            for kind, f in variants:
                res.extra['programs'] += 1
                res.extra[kind] += 1
                out = check_one(f, ninja, known, res.extra)
                if out is None:
                    continue
                why, sig = out
                if sig and all(known.listed(PROP, s) for s in sig.split('+')):
                    for s in sig.split('+'):
                        res.known_hits[s] += 1
                    continue
                state['fail'] = (dict(files={k.decode('latin-1'): v.decode('latin-1') for k, v in f.items()}, muts=[]), why)
                budget.failed(dg)
                raise AssertionError(why)
        common.run_hypothesis(test, state, res)
    return res


def replay_case(case):
    files = {k.encode('latin-1'): v.encode('latin-1') for k, v in case['files'].items()}
    known = common.Known()
    with Probe("san") as p:
        variants = [files]
        for (mpos, mkind, which) in case.get('muts', []):
            f2 = mutate(files, mpos, mkind, which)
            if f2 is not None:
                variants.append(f2)
        for f in variants:
            out = check_one(f, make_ninja(p), known, {'ref_accept': 0, 'ref_reject': 0}.copy() if False else __import__('collections').Counter())
            if out is not None:
                why, sig = out
                if sig and all(known.listed(PROP, s) for s in sig.split('+')):
                    continue
                return why
    return None


def replay_regressions(ck):
    """saved shrunk cases (regress/*_C12_*.json) are re-executed first; a failing one means a repaired defect came back"""
    import glob
    n = 0
    for path in sorted(glob.glob(os.path.join(common.VERIF, 'regress', '*_C12_*.json'))):
        case = json.load(open(path))['case']
        n += 1
        why = replay_case(case)
        if why:
            ck.violation(case, "regression file %s: %s" % (os.path.basename(path), why if isinstance(why, str) else 'violation'))
    ck.extra_cov['regression_cases_replayed'] = n


def run(tier):
    ck = common.Check(PROP, tier, "exploration",
                      "grammar-generated multi-file manifests (1-7 statements per file, include/subninja nested <=2, variables from a pool that contains the "
                      "reserved rule variables so that file-, rule- and build-level bindings of one name meet, every $-escape, continuations, CRLF, paths "
                      "needing canonicalisation, pools, defaults, dyndep bindings, validations, implicit outputs, legacy phony self-references in both "
                      "-w phonycycle modes) and up to 4 single-token mutations each (replace by a token of the alphabet / duplicate / swap, in any file). "
                      "Oracle: reference evaluator written from the manual; accept/reject, the whole graph dump and the file:line of every diagnostic "
                      "must agree. Non-trivial = >=2 files, >=1 rule and a variable bound at least twice; distinct by hash of the file set.",
                      ["manifests are valid UTF-8 (they travel through JSON); bytes >= 0x80 occur only as well-formed sequences",
                       "a rule variable that refers to a file-level variable sees the value at the time the command is evaluated (the manual leaves the timing open; the reference follows ninja there)"])
    n = 400000 if tier == "thorough" else 14000
    replay_regressions(ck)
    res = common.run_workers(worker, [(w, max(1, n // common.NCPU)) for w in range(common.NCPU)])
    ck.merge(res)
    for f in res.failures:
        if f.get('harness_error'):
            continue
        reasons = [replay_case(f['case']) for _ in range(3)]
        fails = sum(1 for r_ in reasons if r_)
        if fails == 3:
            # report what the saved case shows on replay (while shrinking, the search may have moved to a different reason)
            why_now = reasons[-1] if isinstance(reasons[-1], str) else f['why']
            ck.violation(f['case'], why_now)
        else:
            ck.res.notes.append("FLAKY %d/3: %s" % (fails, f['why'][:200]))
    for sig, cnt in res.known_hits.items():
        e = ck.known.listed(PROP, sig)
        if e:
            ck.known_finding(sig, "%s [%s] (%d generated programs attributed by the reference's counterfactual switch)" % (e['title'], sig, cnt))
    ck.extra_cov['programs'] = res.extra.get('programs', 0)
    return ck.finish()


def replay(path):
    j = json.load(open(path))
    why = replay_case(j.get('case', j))
    if why:
        print("finding:", why)
        print("VIOLATION property=%s replay=%s" % (PROP, path))
        return 1
    print("replay: no violation")
    return 0
