from . import simprops
PROP = "C02"


def run(tier):
    ck = simprops.run_prop(PROP, tier, n_quick=6000, n_thorough=80000, e2e=(600, 5000), e2e_features=dict(dyndep=True), late_targets=(600, 8000))
    return ck.finish()


def replay(path):
    return simprops.replay(PROP, path)
