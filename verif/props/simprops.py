"""C01-C06 (and the C20 counter invariants) are decided on the same engine: generated graphs x histories x
schedules run in the SIM, with one oracle family per property (verif/simrun.py)."""
from .. import common, simcheck

SPECIAL = {'restat', 'hidden', 'multi_out', 'phony', 'validation', 'implicit_out', 'generator', 'deps_gcc', 'deps_msvc', 'deps_depfile'}

ASSUME = ["commands are deterministic functions of the files they read (SIM runner), write only declared outputs/depfile and report hidden reads",
          "logical clock: every write gets a strictly larger tick (no mtime ties, time never goes backwards)",
          "SIM drives Builder/Plan/DependencyScan/BuildLog/DepsLog in-process; RealCommandRunner, subprocesses and ninja.cc are covered by the E2E checks only"]

CONF = {
    'C01': dict(level='exploration',
                rule="generated graph x history (edits, touches, deletions, command/rspfile changes, dropped records, failing builds) x -j/-k x schedule; "
                     "oracle: content of every node in the requested closure == pure clean-build evaluator. Non-trivial = history with an incremental "
                     "build that re-ran some but not all commands on a graph with >=1 of restat/discovered deps/multi-output/phony/validation/generator; "
                     "distinct by hash of (graph, ops).",
                nt=lambda g, ops, sim, feats: 'partial_rebuild' in sim.labels and bool(feats & SPECIAL)),
    'C02': dict(level='exploration',
                rule="same histories; after every successful build the same invocation is repeated and must start nothing (phase 'uptodate'). "
                     "Non-trivial = a build that ran >=2 commands on a graph with restat/generator/deps/validation/phony/implicit output/pool.",
                nt=lambda g, ops, sim, feats: 'ge2_commands' in sim.labels and bool(feats & (SPECIAL | {'pool'}))),
    'C03': dict(level='exploration',
                rule="converged state, then change sets; oracle: set of started commands == reference make-semantics model (both directions). "
                     "Non-trivial = an incremental build that re-ran some but not all commands.",
                nt=lambda g, ops, sim, feats: 'partial_rebuild' in sim.labels),
    'C04': dict(level='exploration',
                rule="trace invariant at every StartCommand: producers (all input kinds + recorded discovered deps) that ran finished successfully before, "
                     "output/depfile directories exist, rspfile holds the declared content; sampled schedules here, all schedules for small graphs in the "
                     "enumeration part. Non-trivial = >=2 commands running concurrently and >=1 start whose producer ran in the same build.",
                nt=lambda g, ops, sim, feats: 'parallel' in sim.labels and 'producer_ran_first' in sim.labels),
    'C05': dict(level='fault_enumeration',
                rule="graph x fault map (exit codes 1,2,3,127,255, with/without touching outputs) x -k x -j x schedule; trace + log invariants. "
                     "Non-trivial = a command failed while another command was running.",
                nt=lambda g, ops, sim, feats: 'failure_while_other_running' in sim.labels),
    'C06': dict(level='exploration',
                rule="trace invariants: running <= -j, per-pool running <= depth (console 1), each statement started at most once, retrospective no-idle "
                     "rule, never 'stuck'. Non-trivial = build that used >=2 pools or delayed a pooled statement, with >=2 commands in parallel.",
                nt=lambda g, ops, sim, feats: 'parallel' in sim.labels and ('multi_pool_build' in sim.labels or 'pool_delayed' in sim.labels)),
}


def run_prop(prop, tier, n_quick, n_thorough, **kw):
    c = CONF[prop]
    ck = common.Check(prop, tier, c['level'], c['rule'], ASSUME)
    n = n_thorough if tier == 'thorough' else n_quick
    big = tier == 'thorough'
    simcheck.campaign(ck, [prop], n, max_edges=12 if big else 7, max_ops=14 if big else 8, nontrivial_fn=c['nt'], **kw)
    return ck


def replay(prop, path):
    return simcheck.replay_file(path, prop, [prop])
