"""C16 (level 1) — file names reach commands intact: the text ninja substitutes for $in / $out / $in_newline is
given to the real /bin/sh, which must hand `argdump` exactly the names. Exhaustive over all 1- and 2-byte names
and all 3-byte names over the shell-special alphabet, random long names; every position of 1-5 element lists."""
import itertools, json, os, shutil, subprocess, traceback
from hypothesis import given, settings, seed as hseed, HealthCheck, Phase, Verbosity, strategies as st
from .. import build, common
from ..probe import Probe, ProbeDied

PROP = "C16"
SAFE = set(b"ABCDEFGHIJKLMNOPQRSTUVWXYZabcdefghijklmnopqrstuvwxyz0123456789_+./-")
SPECIAL = [bytes([c]) for c in b" '\"\\$`*?[]~#&;|<>(){}!=%^\t-"]


def parse_argdump(out, n):
    """out: concatenated argdump outputs of n invocations -> list of arg lists, or None if it does not parse"""
    res, pos = [], 0
    for _ in range(n):
        z = out.find(b"\0", pos)
        if z < 0:
            return None
        try:
            cnt = int(out[pos:z])
        except ValueError:
            return None
        pos = z + 1
        args = []
        for _ in range(cnt):
            z = out.find(b"\0", pos)
            if z < 0:
                return None
            args.append(out[pos:z])
            pos = z + 1
        res.append(args)
    return res if pos == len(out) else None


class Shell:
    def __init__(self):
        self.root = common.scratch_root()
        self.work = os.path.join(self.root, "work")
        self.home = os.path.join(self.root, "home")
        os.makedirs(self.work)
        os.makedirs(self.home)
        for decoy in ("a", "b", "ab", "x.c", "y", "-n"):          # so that an unquoted glob would expand
            open(os.path.join(self.work, decoy), "w").close()
        self.listing = sorted(os.listdir(self.work))
        bindir = os.path.join(self.root, "bin")
        os.makedirs(bindir)
        shutil.copy(build.c_tool("argdump"), os.path.join(bindir, "argdump"))
        self.cmdbin = os.path.join(self.root, "cmdbin")
        os.makedirs(self.cmdbin)
        self.argdump = os.path.join(bindir, "argdump")
        self.env = dict(PATH=bindir + ":" + self.cmdbin + ":/usr/bin:/bin", HOME=self.home, IFS=" \t\n", a="EXPANDED_a", x="EXPANDED_x", LC_ALL="C")
        self._special = {}

    def is_shell_word(self, name):
        """True if sh itself gives the word a meaning in command position even when quoted or looked up (builtin), or when
        written without quotes (reserved word): not a file name the property can speak about there"""
        if name not in self._special:
            p = subprocess.run(["/bin/sh", "-c", 'type "$1"', "sh", name], env=dict(PATH="/nonexistent"), capture_output=True)
            self._special[name] = b"not found" not in p.stdout + p.stderr
        return self._special[name]

    def close(self):
        shutil.rmtree(self.root, ignore_errors=True)

    def run(self, script, n):
        p = subprocess.run(["/bin/sh", "-c", script], cwd=self.work, env=self.env, capture_output=True, timeout=120)
        ok_dir = sorted(os.listdir(self.work)) == self.listing and os.listdir(self.home) == []
        if not ok_dir:
            for f in os.listdir(self.work):
                if f not in self.listing:
                    try:
                        os.unlink(os.path.join(self.work, f))
                    except OSError:
                        shutil.rmtree(os.path.join(self.work, f), ignore_errors=True)
            for f in os.listdir(self.home):
                os.unlink(os.path.join(self.home, f))
        return parse_argdump(p.stdout, n), ok_dir, p


def check_cases(probe, sh, cases):
    """cases: list of (ins, outs) of bytes names. Returns list of (case, why) failures."""
    r = probe.request(dict(kind="shell_escape", cases=[dict(ins=[i.hex() for i in ins], outs=[o.hex() for o in outs]) for ins, outs in cases]))["results"]
    cmds = [bytes.fromhex(x["command"]) for x in r]
    fails = []

    def expect(ins, outs):
        return ins + [b"--"] + outs

    parsed, ok_dir, p = sh.run(b"\n".join(cmds), len(cases))
    if parsed is not None and ok_dir and all(parsed[i] == expect(*cases[i]) for i in range(len(cases))):
        bad = []
    else:
        bad = range(len(cases))         # pinpoint: one shell per case
    for i in bad:
        parsed, ok_dir, p = sh.run(cmds[i], 1)
        if parsed is None or parsed[0] != expect(*cases[i]):
            fails.append((cases[i], "sh read %r from command %r, expected the words %r (stderr %r)" % (
                parsed[0] if parsed else p.stdout[:200], cmds[i], expect(*cases[i]), p.stderr[:200])))
        elif not ok_dir:
            fails.append((cases[i], "running %r created or removed files (expansion / redirection / injection)" % cmds[i]))
    # verbatim clause and $in_newline: one word per line, each read back by sh as the name
    nl_cases, nl_cmds = [], []
    for i, (ins, outs) in enumerate(cases):
        for n in ins + outs:
            if n and all(c in SAFE for c in n):
                words = cmds[i].split(b" ")
                if n not in words:
                    fails.append((cases[i], "name %r needs no quoting but is not passed verbatim in %r" % (n, cmds[i])))
        lines = bytes.fromhex(r[i]["in_newline"]).split(b"\n")
        if len(lines) != len(ins):
            fails.append((cases[i], "$in_newline has %d lines for %d inputs: %r" % (len(lines), len(ins), lines)))
            continue
        nl_cases.append(ins)
        nl_cmds.append(b"argdump " + b" ".join(lines))
    if nl_cmds:
        parsed, ok_dir, p = sh.run(b"\n".join(nl_cmds), len(nl_cmds))
        if parsed is None or not ok_dir or any(parsed[i] != nl_cases[i] for i in range(len(nl_cases))):
            for i in range(len(nl_cmds)):
                parsed, ok_dir, p = sh.run(nl_cmds[i], 1)
                if parsed is None or parsed[0] != nl_cases[i] or not ok_dir:
                    fails.append(((nl_cases[i], []), "$in_newline words %r are read by sh as %r, expected %r" % (nl_cmds[i], parsed, nl_cases[i])))
    return fails


def cmdword_ok(name):
    return (b"/" not in name and b"\0" not in name and b"\n" not in name and name not in (b".", b"..", b"argdump") and 0 < len(name) < 200)


def check_cmdword(probe, sh, names):
    """the name as the command word: `$in -- $out` with an executable of that name on PATH must start exactly that
    executable with the arguments -- o. Names that sh itself gives a meaning to (builtins, reserved words) are skipped.
    The script is run behind a no-op first line, so that `sh -c` does not take a leading '-' of the *script* for an option
    (what ninja's own spawn does with such a command is judged through the real binary, level 3)."""
    names = [n for n in names if cmdword_ok(n) and not sh.is_shell_word(n)]
    if not names:
        return [], 0
    for n in names:
        dst = os.path.join(sh.cmdbin.encode(), n)
        if not os.path.exists(dst):
            os.link(sh.argdump, dst)
    r = probe.request(dict(kind="shell_escape", cases=[dict(ins=[n.hex()], outs=[b"o".hex()], cmdword=True) for n in names]))["results"]
    cmds = [bytes.fromhex(x["command"]) for x in r]
    want = [b"--", b"o"]
    fails = []
    parsed, ok_dir, p = sh.run(b":\n" + b"\n".join(cmds), len(names))
    bad = [] if (parsed is not None and ok_dir and all(a == want for a in parsed)) else range(len(names))
    for i in bad:
        parsed, ok_dir, p = sh.run(b":\n" + cmds[i], 1)
        if parsed is None or parsed[0] != want:
            fails.append((([names[i]], [b"o"]), "as the command word: sh did not start the program named %r from command %r (got %r, stderr %r)" % (
                names[i], cmds[i], parsed[0] if parsed else p.stdout[:100], p.stderr[:200])))
        elif not ok_dir:
            fails.append((([names[i]], [b"o"]), "as the command word: running %r created or removed files" % cmds[i]))
    for n in names:
        os.unlink(os.path.join(sh.cmdbin.encode(), n))
    return fails, len(names)


def positions(name):
    """the name alone, and first/middle/last in lists of neighbours, as input and as output"""
    x, y = b"n1", b"n 2"
    yield ([name], [name])
    yield ([name, x, y], [b"o"])
    yield ([x, name, y], [y, name])
    yield ([x, y, name], [name, x])


def enum_worker(part, nparts, tier):
    res = common.Result()
    bytes_ok = [bytes([c]) for c in range(1, 256) if c != 10]
    names = list(bytes_ok)
    names += [a + b for a in bytes_ok for b in bytes_ok]
    names += [a + b + c for a in SPECIAL for b in SPECIAL for c in SPECIAL]
    if tier == "thorough":
        names += [a + b + c + d for a in SPECIAL[:12] for b in SPECIAL[:12] for c in SPECIAL[:12] for d in SPECIAL[:12]]
    mine = names[part::nparts]
    sh = Shell()
    try:
        with Probe("fast") as probe:
            batch = []
            def flush():
                if not batch:
                    return
                try:
                    fails = check_cases(probe, sh, batch)
                except ProbeDied as d:
                    fails = [(batch[0], "ninja crashed while evaluating a command: " + d.describe())]
                for case, why in fails:
                    if len(res.failures) < 3:
                        res.failures.append(dict(case=dict(ins=[i.hex() for i in case[0]], outs=[o.hex() for o in case[1]]), why=why))
                for ins, outs in batch:
                    res.evaluations += 1
                del batch[:]
            cw = []
            def flush_cw():
                if not cw:
                    return
                try:
                    fails, n_ = check_cmdword(probe, sh, cw)
                except ProbeDied as d:
                    fails, n_ = [(([cw[0]], [b"o"]), "ninja crashed while evaluating a command: " + d.describe())], 0
                res.evaluations += n_
                res.extra["command_word_names"] += n_
                for case, why in fails:
                    if len(res.failures) < 3:
                        res.failures.append(dict(case=dict(ins=[i.hex() for i in case[0]], outs=[o.hex() for o in case[1]], cmdword=True), why=why))
                del cw[:]
            for n in mine:
                if len(n) <= 3:
                    cw.append(n)
                    if len(cw) >= 300:
                        flush_cw()
                full = len(n) == 1 or (len(n) == 2 and (n[0:1] in SPECIAL or n[1:2] in SPECIAL))
                for k, case in enumerate(positions(n)):
                    if k >= 1 and not full and len(n) != 3:
                        continue
                    batch.append(case)
                if any(c not in SAFE for c in n):
                    res.extra["names_needing_quotes"] += 1
                res.extra["names"] += 1
                if len(batch) >= 400:
                    flush()
                if res.failures:
                    break
            flush()
            flush_cw()
            if mine:
                res.samples.append(dict(name=repr(mine[len(mine) // 2])))
    except Exception:
        res.failures.append(dict(why="harness exception", harness_error=True, trace=traceback.format_exc()))
    finally:
        sh.close()
    return res


def random_worker(widx, n_examples):
    res = common.Result()
    state = {}
    budget = common.ShrinkBudget()
    sh = Shell()
    alpha = st.one_of(st.sampled_from(SPECIAL), st.integers(1, 255).filter(lambda c: c != 10).map(lambda c: bytes([c])))
    name = st.lists(alpha, min_size=1, max_size=40).map(b"".join)
    longname = st.lists(alpha, min_size=200, max_size=4000).map(b"".join)
    try:
        with Probe("fast") as probe:
            @hseed(common.sub_seed(PROP, widx))
            @settings(max_examples=n_examples, deadline=None, database=None, suppress_health_check=list(HealthCheck),
                      phases=[Phase.generate, Phase.shrink], verbosity=Verbosity.quiet, report_multiple_bugs=False)
            @given(st.lists(st.one_of(name, name, name, longname), min_size=1, max_size=5), st.lists(name, min_size=1, max_size=5, unique=True))
            def test(ins, outs):
                case = dict(ins=[i.hex() for i in ins], outs=[o.hex() for o in outs])
                dg = common.digest(case)
                if budget.skip(dg):
                    return
                fails = check_cases(probe, sh, [(ins, outs)])
                res.case(case, True, ['long' if any(len(i) >= 200 for i in ins) else 'short'], sample=dict(ins=[repr(i)[:60] for i in ins]))
                if fails:
                    state['fail'] = (case, fails[0][1])
                    budget.failed(dg)
                    raise AssertionError()
            common.run_hypothesis(test, state, res)
    finally:
        sh.close()
    return res


# ---------------------------------------------------------------------------------------------- level 2: manifest -> real binary
def let_escape(b):
    """a byte string as the value of a manifest binding"""
    out = b.replace(b"$", b"$$")
    if out.startswith(b" "):
        out = b"$ " + out[1:]
    return out


def level2_case(root, ninja, argdump, ins, outs, tag, fail):
    d = os.path.join(root, "l2")
    shutil.rmtree(d, ignore_errors=True)
    os.makedirs(d)
    for n in ins:
        open(os.path.join(d.encode(), n), "wb").close()
    L = [b"ad = " + argdump.encode() + b"\n"]
    for i, n in enumerate(ins):
        L.append(b"i%d = " % i + let_escape(n) + b"\n")
    for i, n in enumerate(outs):
        L.append(b"o%d = " % i + let_escape(n) + b"\n")
    L.append(b"tag = " + let_escape(tag) + b"\n")
    # an empty tag makes the whole content evaluate to nothing: the file must then be written empty, not left as it was
    # other bindings of the rule are built from $in / $out too, and ninja evaluates them - unquoted, they are file names for
    # its own use - before it evaluates the command: a depfile next to the output, or the response file itself
    joined = b" ".join(outs)
    variant = (sum(sum(n) for n in ins + outs) + len(tag)) % 3 if len(joined) < 200 else 0
    rsp_name = (joined + b".rsp") if variant == 2 else b"rsp.txt"
    L.append(b"rule r\n  command = $ad $in -- $out > dump.bin && "
             + (b"find . -maxdepth 1 -name '*.rsp' -exec cat {} + > rspcopy.bin" if variant == 2 else b"cat rsp.txt > rspcopy.bin") + b" $fail\n"
             + (b"  depfile = $out.d\n" if variant == 1 else b"")
             + (b"  rspfile = $out.rsp\n" if variant == 2 else b"  rspfile = rsp.txt\n") + b"  rspfile_content = "
             + (b"RSP:$tag" if tag else b"$tag") + b"\n")
    open(os.path.join(d.encode(), rsp_name), "wb").write(b"STALE-CONTENT-OF-AN-EARLIER-FAILED-COMMAND")
    L.append(b"build " + b" ".join(b"${o%d}" % i for i in range(len(outs))) + b": r " + b" ".join(b"${i%d}" % i for i in range(len(ins))) + b"\n")
    L.append(b"  fail = " + (b"&& false" if fail else b"") + b"\n")
    open(os.path.join(d, "build.ninja"), "wb").write(b"".join(L))
    home = os.path.join(root, "home2")
    os.makedirs(home, exist_ok=True)
    p = subprocess.run([ninja], cwd=d, env=dict(os.environ, HOME=home, TERM="dumb", a="EXPANDED"), capture_output=True, timeout=60)
    detail = dict(ins=[i.hex() for i in ins], outs=[o.hex() for o in outs], tag=tag.hex(), fail=fail, rule_variant=variant, output=(p.stdout + p.stderr)[-300:].decode("latin-1"))
    try:
        dump = open(os.path.join(d, "dump.bin"), "rb").read()
    except FileNotFoundError:
        return dict(kind="the command did not run (or could not write its dump): ninja exit %d" % p.returncode, detail=detail)
    parsed = parse_argdump(dump, 1)
    want = ins + [b"--"] + outs
    if parsed is None or parsed[0] != want:
        return dict(kind="the command received %r, expected %r" % (parsed[0] if parsed else dump[:200], want), detail=detail)
    rsp = open(os.path.join(d, "rspcopy.bin"), "rb").read() if os.path.exists(os.path.join(d, "rspcopy.bin")) else None
    want_rsp = (b"RSP:" + tag) if tag else b""
    if rsp != want_rsp:
        return dict(kind="response file held %r when the command started, expected %r" % (rsp, want_rsp), detail=detail)
    left = os.path.exists(os.path.join(d.encode(), rsp_name))
    if fail and (p.returncode == 0 or not left):
        return dict(kind="failing command: exit %d, response file kept: %s (must be kept)" % (p.returncode, left), detail=detail)
    if not fail and (p.returncode != 0 or left):
        return dict(kind="successful command: exit %d, response file still there: %s (must be removed)" % (p.returncode, left), detail=detail)
    if os.listdir(home):
        return dict(kind="files appeared in $HOME", detail=detail)
    return None


def cmdword_real_case(root, ninja, argdump, name):
    """level 3: `command = $in $out > dump.bin` through the real binary; the input is an executable in the build
    directory, which is on PATH"""
    d = os.path.join(root, "l3")
    shutil.rmtree(d, ignore_errors=True)
    os.makedirs(d)
    shutil.copy(argdump, os.path.join(d.encode(), name))
    open(os.path.join(d, "build.ninja"), "wb").write(b"n = " + let_escape(name) + b"\nrule run\n  command = $in $out > dump.bin\nbuild o: run $n\n")
    home = os.path.join(root, "home3")
    os.makedirs(home, exist_ok=True)
    p = subprocess.run([ninja], cwd=d, env=dict(os.environ, HOME=home, TERM="dumb", a="EXPANDED", PATH=d + ":/usr/bin:/bin"), capture_output=True, timeout=60)
    detail = dict(name=name.hex(), output=(p.stdout + p.stderr)[-300:].decode("latin-1"))
    try:
        dump = open(os.path.join(d, "dump.bin"), "rb").read()
    except FileNotFoundError:
        dump = b""
    parsed = parse_argdump(dump, 1)
    if parsed is None or parsed[0] != [b"o"] or p.returncode != 0:
        return dict(kind="as the command word of a real build the name %r did not start the program of that name with the argument 'o': exit %d, got %r"
                    % (name, p.returncode, parsed[0] if parsed else dump[:100]), detail=detail)
    extra = sorted(set(os.listdir(d.encode())) - {name, b"build.ninja", b"dump.bin", b".ninja_log", b".ninja_deps", b".ninja_lock"})
    if extra or os.listdir(home):
        return dict(kind="running the command word %r created files %r" % (name, extra), detail=detail)
    return None


def level3_worker(widx, nworkers, n_random):
    res = common.Result()
    root = common.scratch_root()
    ninja = build.ninja_binary("rel")
    argdump = build.c_tool("argdump")
    sh = Shell()
    try:
        names = [bytes([c]) for c in range(1, 256) if c not in (10, 13)]      # CR cannot be written in a manifest
        names += [a + b for a in (b"-", b"+", b"~", b"=", b"#", b"!", b"{", b"a") for b in (b"x", b"-", b"=", b"n", b"e", b"1", b" ", b"$")]
        names += [b"a=b", b"PATH=x", b"-n", b"-e", b"--", b"-c", b"+x", b"a:b", b"a,b", b"a@b", b"x=1.y", b"_=_"]
        import random
        rnd = random.Random(common.sub_seed(PROP, 'l3', widx))     # a fixed function of VERIF_SEED
        alpha = [s_ for s_ in SPECIAL if s_ != b"/"] + [bytes([c]) for c in range(33, 127) if c != 47]
        for _ in range(n_random):
            names.append(b"".join(rnd.choice(alpha) for _ in range(rnd.randint(1, 8))))
        for n in names[widx::nworkers]:
            if not cmdword_ok(n) or n in (b"dump.bin", b"build.ninja", b"o") or sh.is_shell_word(n):
                continue
            f = cmdword_real_case(root, ninja, argdump, n)
            res.case(dict(level3=True, name=n.hex()), any(c not in SAFE for c in n), ['l3:command_word'], sample=dict(name=repr(n)))
            if f:
                res.failures.append(dict(case=dict(level3=True, name=n.hex()), why="[real binary] %s %s" % (f['kind'], json.dumps(f['detail'])[:500])))
                break
    except Exception:
        res.failures.append(dict(why="harness exception", harness_error=True, trace=traceback.format_exc()))
    finally:
        sh.close()
        shutil.rmtree(root, ignore_errors=True)
    return res


def level2_worker(widx, n_examples):
    res = common.Result()
    state = {}
    budget = common.ShrinkBudget()
    root = common.scratch_root()
    ninja = build.ninja_binary("rel")
    argdump = build.c_tool("argdump")
    b1 = st.integers(1, 255).filter(lambda c: c not in (10, 13, 47)).map(lambda c: bytes([c]))
    nm = st.lists(st.one_of(b1, st.sampled_from([s_ for s_ in SPECIAL if s_ != b"/"])), min_size=1, max_size=12).map(b"".join).filter(lambda n: n not in (b".", b"..") and len(n) < 200)
    try:
        @hseed(common.sub_seed(PROP, 'l2', widx))
        @settings(max_examples=n_examples, deadline=None, database=None, suppress_health_check=list(HealthCheck),
                  phases=[Phase.generate, Phase.shrink], verbosity=Verbosity.quiet, report_multiple_bugs=False)
        @given(st.lists(nm, min_size=1, max_size=3, unique=True), st.lists(nm, min_size=1, max_size=2, unique=True), st.one_of(nm, nm, nm, st.just(b"")), st.booleans())
        def test(ins, outs, tag, fail):
            if set(ins) & set(outs) or any(x in (b"dump.bin", b"rsp.txt", b"rspcopy.bin", b"build.ninja") for x in ins + outs):
                return
            case = dict(level2=True, ins=[i.hex() for i in ins], outs=[o.hex() for o in outs], tag=tag.hex(), fail=fail)
            dg = common.digest(case)
            if budget.skip(dg):
                return
            f = level2_case(root, ninja, argdump, ins, outs, tag, fail)
            res.case(case, True, ['l2:fail' if fail else 'l2:ok'], sample=dict(ins=[repr(i) for i in ins], outs=[repr(o) for o in outs], fail=fail))
            if f:
                state['fail'] = (case, "[real binary] %s %s" % (f['kind'], json.dumps(f['detail'])[:800]))
                budget.failed(dg)
                raise AssertionError()
        common.run_hypothesis(test, state, res)
    finally:
        shutil.rmtree(root, ignore_errors=True)
    return res


def run(tier):
    ck = common.Check(PROP, tier, "exploration",
                      "level 1 (real /bin/sh): EVERY name of 1 and 2 bytes (all byte values except NUL and LF) and every 3-byte name over the 26-character "
                      "shell-special alphabet, as sole input, sole output and (1-byte, special) first/middle/last of 3-element $in and $out lists; "
                      "Hypothesis: lists of 1-5 random names up to 4 KiB. Oracle: `argdump` started by sh receives exactly the names, the working and "
                      "home directories stay untouched, safe names appear verbatim, $in_newline has one such word per line. Non-trivial = name needs "
                      "quoting; enumerated names are distinct by construction.",
                      ["/bin/sh is dash on this image; decoy files and variables are planted so that globbing/expansion would be visible",
                       "level 2: names and the rspfile content reach the manifest through variables (every byte except NUL, LF, CR and, for names, /), the real binary runs the command, argv is dumped and the rspfile life-cycle (content at start, removed after success, kept after failure) is checked"])
    import glob
    for path in sorted(glob.glob(os.path.join(common.VERIF, 'regress', '*_C16_*.json'))):
        c = json.load(open(path))['case']
        if c.get('level3'):
            root = common.scratch_root()
            try:
                f = cmdword_real_case(root, build.ninja_binary("rel"), build.c_tool("argdump"), bytes.fromhex(c['name']))
            finally:
                shutil.rmtree(root, ignore_errors=True)
            ck.extra_cov['regression_cases_replayed'] = ck.extra_cov.get('regression_cases_replayed', 0) + 1
            if f:
                ck.violation(c, "regression file %s: [real binary] %s" % (os.path.basename(path), f['kind']))
    res = common.run_workers(enum_worker, [(w, common.NCPU, tier) for w in range(common.NCPU)])
    ck.merge(res)
    nquote = res.extra.get("names_needing_quotes", 0)
    r2 = common.run_workers(random_worker, [(w, (3000 if tier == "thorough" else 150)) for w in range(common.NCPU)])
    ck.merge(r2)
    r3 = common.run_workers(level2_worker, [(w, (1500 if tier == "thorough" else 40)) for w in range(common.NCPU)])
    ck.merge(r3)
    ck.extra_cov['level2_cases'] = r3.evaluations
    r4 = common.run_workers(level3_worker, [(w, common.NCPU, (300 if tier == "thorough" else 20)) for w in range(common.NCPU)])
    ck.merge(r4)
    ck.extra_cov['level3_command_word_cases'] = r4.evaluations
    ck.extra_cov['level1_command_word_names'] = res.extra.get("command_word_names", 0)
    ck.rule += (" Command-word position: `$in -- $out` with an executable of that name on PATH must start exactly that program - every 1-3 byte name "
                "of the enumeration without '/' that sh does not itself give a meaning to (builtins, reserved words), through the probe and sh; "
                "and `command = $in $out` through the real binary for every 1-byte name, names starting with - + ~ = # ! {, and random names.")
    for f in res.failures + r2.failures + r3.failures + r4.failures:
        if not f.get("harness_error"):
            ck.violation(f["case"], f["why"])
    ck.extra_cov.update(exhaustive=not res.failures, distinct_nontrivial=nquote + len(r2.nontrivial), enumerated_names=res.extra.get("names", 0))
    return ck.finish()


def replay(path):
    j = json.load(open(path))
    c = j.get("case", j)
    if c.get("level3"):
        root = common.scratch_root()
        try:
            f = cmdword_real_case(root, build.ninja_binary("rel"), build.c_tool("argdump"), bytes.fromhex(c["name"]))
        finally:
            shutil.rmtree(root, ignore_errors=True)
        if f:
            print("finding:", f["kind"])
            print("VIOLATION property=%s replay=%s" % (PROP, path))
            return 1
        print("replay: no violation")
        return 0
    if c.get("cmdword"):
        sh = Shell()
        try:
            with Probe("san") as probe:
                fails, _ = check_cmdword(probe, sh, [bytes.fromhex(i) for i in c["ins"]])
        finally:
            sh.close()
        if fails:
            print("finding:", fails[0][1][:1500])
            print("VIOLATION property=%s replay=%s" % (PROP, path))
            return 1
        print("replay: no violation")
        return 0
    if c.get("level2"):
        root = common.scratch_root()
        try:
            f = level2_case(root, build.ninja_binary("rel"), build.c_tool("argdump"), [bytes.fromhex(i) for i in c["ins"]], [bytes.fromhex(o) for o in c["outs"]],
                            bytes.fromhex(c["tag"]), c["fail"])
        finally:
            shutil.rmtree(root, ignore_errors=True)
        if f:
            print("finding:", f["kind"])
            print("VIOLATION property=%s replay=%s" % (PROP, path))
            return 1
        print("replay: no violation")
        return 0
    sh = Shell()
    try:
        with Probe("san") as probe:
            fails = check_cases(probe, sh, [([bytes.fromhex(i) for i in c["ins"]], [bytes.fromhex(o) for o in c["outs"]])])
    finally:
        sh.close()
    if fails:
        print("finding:", fails[0][1][:1500])
        print("VIOLATION property=%s replay=%s" % (PROP, path))
        return 1
    print("replay: no violation")
    return 0
