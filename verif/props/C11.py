"""C11 — dyndep information behaves as if it had been written in the manifest.
(A) metamorphic: generated graphs with 1-2 dyndep files (source or produced during the build, shared between
statements, adding implicit inputs incl. outputs another bound statement gets from the same file, implicit outputs,
restat) run through generated histories next to the variant with that information inlined; result, commands and
contents must agree per invocation.  (B) invalid dyndep files: statement deleted / duplicated / added for an unbound
statement / claiming another statement's output / closing a cycle / bad version / truncated at EVERY byte: the build
must fail with an error and must not run the statements bound to the file."""
import copy, json, traceback
from hypothesis import given, settings, seed as hseed, HealthCheck, Phase, Verbosity, strategies as st
from .. import common, graphs, models, simcheck, simrun
from ..models import key, all_outs
from ..probe import Probe, ProbeDied
from . import simprops

PROP = "C11"


def statements(text):
    """line-level view of a generated dyndep text: (version_ok, [(out, complete)]), tail_ok"""
    lines = text.split("\n")
    tail = lines.pop()            # text after the last newline
    return lines, tail


def truncation_valid(g, dd, full, n):
    """is full[:n] still a complete, valid dyndep file for the statements bound to dd?"""
    t = full[:n]
    lines, tail = statements(t)
    if tail != "":
        return False
    if not lines or lines[0] != "ninja_dyndep_version = 1":
        return False
    outs = []
    for l in lines[1:]:
        if l.startswith("build "):
            outs.append(l.split()[1].rstrip(":"))
    # names as the file spells them (dyndep files may spell paths non-canonically, see models.dyndep_text)
    bound = [models._spell(key(e), e.get('dd_spell', 0)) for e in g['edges'] if e.get('dd') == dd]
    return sorted(outs) == sorted(bound)


MUTATIONS = ['delete_stmt', 'dup_stmt', 'extra_stmt', 'claim_output', 'cycle', 'bad_version', 'missing_version', 'truncate', 'explicit_input',
             'order_only', 'bad_binding', 'empty_file', 'unknown_output']


def mutate(g, dd, kind, a, b):
    """returns (text, valid:bool) or None if the mutation does not apply"""
    full = models.dyndep_text(g, dd)
    bound = [e for e in g['edges'] if e.get('dd') == dd]
    lines = full.split("\n")[:-1]
    stm = [i for i, l in enumerate(lines) if l.startswith("build ")]
    if kind == 'truncate':
        n = a % (len(full) + 1)
        return full[:n], truncation_valid(g, dd, full, n)
    if kind == 'delete_stmt':
        i = stm[a % len(stm)]
        j = i + 1
        while j < len(lines) and lines[j].startswith("  "):
            j += 1
        return "\n".join(lines[:i] + lines[j:]) + "\n", False
    if kind == 'dup_stmt':
        i = stm[a % len(stm)]
        return "\n".join(lines + [lines[i]]) + "\n", False
    if kind == 'extra_stmt':
        others = [e for e in g['edges'] if e.get('dd') != dd and not e['phony']]
        if not others:
            return None
        return full + "build %s: dyndep\n" % key(others[a % len(others)]), False
    if kind == 'unknown_output':
        return full + "build no_such_output: dyndep\n", False
    if kind == 'claim_output':
        e = bound[a % len(bound)]
        others = [o for x in g['edges'] if x is not e and not x['phony'] for o in all_outs(x)]
        if not others:
            return None
        i = [k for k in stm if lines[k].split()[1].rstrip(":") == models._spell(key(e), e.get('dd_spell', 0))][0]
        l = lines[i]
        victim = others[b % len(others)]
        head, tail = l.split(": dyndep")
        head = head + (" " if " | " in head else " | ") + victim
        return "\n".join(lines[:i] + [head + ": dyndep" + tail] + lines[i + 1:]) + "\n", False
    if kind == 'cycle':
        e = bound[a % len(bound)]
        i = [k for k in stm if lines[k].split()[1].rstrip(":") == models._spell(key(e), e.get('dd_spell', 0))][0]
        l = lines[i]
        l = l + (" " if ": dyndep |" in l else " | ") + key(e)
        return "\n".join(lines[:i] + [l] + lines[i + 1:]) + "\n", False
    if kind == 'bad_version':
        return "\n".join(["ninja_dyndep_version = %s" % ['0', '1.1', '2', 'x'][a % 4]] + lines[1:]) + "\n", False
    if kind == 'missing_version':
        return "\n".join(lines[1:]) + "\n", False
    if kind == 'explicit_input':
        i = stm[a % len(stm)]
        return "\n".join(lines[:i] + [lines[i].replace(": dyndep", ": dyndep extra_in", 1)] + lines[i + 1:]) + "\n", False
    if kind == 'order_only':
        i = stm[a % len(stm)]
        return "\n".join(lines[:i] + [lines[i] + " || oo_in"] + lines[i + 1:]) + "\n", False
    if kind == 'bad_binding':
        i = stm[a % len(stm)]
        return "\n".join(lines[:i + 1] + ["  command = x"] + lines[i + 1:]) + "\n", False
    if kind == 'empty_file':
        return "", False
    return None


def run_invalid_case(probe, g, mut):
    """returns (finding or None, labels)"""
    kind, a, b, which, build_first = mut
    dds = sorted(g.get('dd_files', {}))
    if not dds:
        return None, set()
    dd = dds[which % len(dds)]
    m = mutate(g, dd, kind, a, b)
    if m is None:
        return None, set()
    text, valid = m
    labels = {'mut_' + kind, 'valid_variant' if valid else 'invalid_variant'}
    sim = simrun.Sim(probe, g)
    try:
        if build_first:
            if not sim.establish():
                return None, labels
            labels.add('after_successful_build')
        produced = g['dd_files'][dd]['produced']
        if produced:
            # the producer now writes the mutated text; make it re-run
            for e in sim.g['edges']:
                if key(e) == dd:
                    e['content_override'] = {dd: dict(by='', table={}, default=text)}
            sim.apply_change(dict(op='edit', a=sim.g['srcs'].index([e for e in sim.g['edges'] if key(e) == dd][0]['exp'][0]), c=5))
            labels.add('dyndep_produced_during_build')
        else:
            sim.write(dd, text)
        bound = [key(e) for e in sim.g['edges'] if e.get('dd') == dd]
        # make sure the bound statements have work to do (otherwise a clean statement legitimately never reads the file)
        for k_ in bound:
            for o in all_outs(sim.edge_by_key(k_)):
                sim.files.pop(o, None)
        targets = [key(e) for e in sim.g['edges']]
        req = sim.request(targets, j=2, k=1)
        try:
            r = probe.request(req, timeout_ms=20000)
        except ProbeDied as d:
            return dict(kind='ninja crashed or hung on a dyndep file', detail=dict(text=text, mutation=kind, died=d.describe())), labels
        starts = [ev['edge'] for ev in r['trace'] if ev['ev'] == 'start']
        if valid:
            if r['status'] != 0:
                return dict(kind='valid dyndep file rejected', detail=dict(text=text, err=r['err'], mutation=kind)), labels
            return None, labels
        if r['status'] == 0:
            return dict(kind='invalid dyndep file silently accepted', detail=dict(text=text, mutation=kind, dd=dd, started=starts,
                                                                                  manifest=graphs.manifest(sim.g))), labels
        ran_bound = [s for s in starts if s in bound]
        if ran_bound:
            return dict(kind='statements bound to an invalid dyndep file were run', detail=dict(text=text, mutation=kind, ran=ran_bound, err=r['err'])), labels
        if not r['err']:
            return dict(kind='build failed without an error message', detail=dict(text=text, mutation=kind)), labels
        return None, labels
    finally:
        sim.close()


def invalid_worker(widx, n_examples):
    res = common.Result()
    state = {}
    budget = common.ShrinkBudget()
    with Probe("fast") as pf, Probe("san") as ps:
        @hseed(common.sub_seed(PROP, 'inv', widx))
        @settings(max_examples=n_examples, deadline=None, database=None, suppress_health_check=list(HealthCheck),
                  phases=[Phase.generate, Phase.shrink], verbosity=Verbosity.quiet, report_multiple_bugs=False)
        @given(graphs.graphs(max_edges=5, features=dict(dyndep=True, unordered_hidden=False, validations=False)),
               st.tuples(st.sampled_from(MUTATIONS + ['truncate', 'truncate']), st.integers(0, 400), st.integers(0, 40), st.integers(0, 3), st.booleans()))
        def test(g, mut):
            if not g.get('dd_files'):
                return
            case = dict(g=g, mut=list(mut))
            dg = common.digest(case)
            if budget.skip(dg):
                return
            f, labels = run_invalid_case(ps if int(dg, 16) % 5 == 0 else pf, g, mut)
            res.case(case, 'invalid_variant' in labels, ['h:' + l for l in labels],
                     sample=dict(mutation=mut[0], dyndep=models.dyndep_text(g, sorted(g['dd_files'])[0])) if 'invalid_variant' in labels else None)
            if f:
                state['fail'] = (case, "%s %s" % (f['kind'], json.dumps(f['detail'], default=repr)[:1500]))
                budget.failed(dg)
                raise AssertionError()
        common.run_hypothesis(test, state, res)
    return res


def truncation_sweep_worker(widx, nworkers):
    """EVERY byte offset of the dyndep files of a fixed family of graphs (exhaustive part)"""
    res = common.Result()
    fam = fixed_family()
    with Probe("fast") as probe:
        jobs = []
        for gi, g in enumerate(fam):
            for dd in sorted(g['dd_files']):
                full = models.dyndep_text(g, dd)
                for n in range(len(full) + 1):
                    jobs.append((gi, dd, n))
        for j, (gi, dd, n) in enumerate(jobs):
            if j % nworkers != widx:
                continue
            g = copy.deepcopy(fam[gi])
            which = sorted(g['dd_files']).index(dd)
            f, labels = run_invalid_case(probe, g, ('truncate', n, 0, which, False))
            res.case(dict(gi=gi, dd=dd, n=n), 'invalid_variant' in labels, ['h:truncate_exhaustive'])
            if f:
                res.failures.append(dict(case=dict(g=g, mut=['truncate', n, 0, which, False]),
                                         why="%s %s" % (f['kind'], json.dumps(f['detail'], default=repr)[:1500])))
                break
    return res


def fixed_family():
    def E(outs, exp, **kw):
        e = dict(outs=outs, iouts=[], phony=False, exp=exp, imp=[], oo=[], vals=[], restat=False, generator=False, deps='', hidden=[],
                 variant='v0', pool='', rsp=None, dd=None, depfile_layout=0)
        e.update(kw)
        return e
    g1 = dict(srcs=['s0', 's1'], pools={}, dd_files={'dd0': dict(produced=False)},
              edges=[E(['o0'], ['s0']), E(['o1'], ['s0'], dd='dd0', dd_ins=['o0'], dd_outs=['ddo'], dd_restat=True),
                     E(['o2'], ['s1'], dd='dd0', dd_ins=['ddo', 's0'], dd_outs=[], dd_restat=False)])
    g2 = dict(srcs=['s0', 'ddsrc0'], pools={}, dd_files={'dd0': dict(produced=True)},
              edges=[E(['dd0'], ['ddsrc0'], is_dd_producer=True), E(['o1'], ['s0'], dd='dd0', dd_ins=['s0'], dd_outs=[], dd_restat=False)])
    g2['edges'][0]['content_override'] = {'dd0': dict(by='', table={}, default=models.dyndep_text(g2, 'dd0'))}
    return [g1, g2]


def replay_case(case):
    if 'mut' in case:
        with Probe("san") as p:
            f, _ = run_invalid_case(p, copy.deepcopy(case['g']), tuple(case['mut']))
        return (f['kind'] + " " + json.dumps(f['detail'], default=repr)[:800]) if f else None
    reps = simcheck.replay_case(case, PROPS, times=1)
    known = common.Known()
    bad = [x for x in reps[0] if not (x['known'] and all(known.listed(x['prop'], s_) for s_ in x['known'].split('+')))]
    return (bad[0]['kind'] + " " + json.dumps(bad[0]['detail'], default=repr)[:800]) if bad else None


PROPS = ['C11', 'C13']


def run(tier):
    thorough = tier == 'thorough'
    ck = common.Check(PROP, tier, "exploration",
                      "(A) metamorphic: generated graphs (<=7 statements) with 1-2 dyndep files (a source file or produced by a statement during the build; "
                      "1-3 statements bound to each; adding implicit inputs from sources / earlier outputs / implicit outputs the same file gives another "
                      "statement, implicit outputs, restat) x generated histories x schedules, run next to the manifest with that information inlined; "
                      "result, commands run (as multiset) and every output's content must agree per invocation; a crash counts. (B) invalid files: 13 "
                      "structural mutations and truncation, on generated graphs, before and after a successful build, file present or produced "
                      "mid-build; plus EVERY truncation offset for a fixed family of two graphs. Non-trivial: (A) a build in which the dyndep file was "
                      "produced and adds an input that is itself generated; (B) the variant is invalid.",
                      simprops.ASSUME + ["implicit outputs added by a dyndep file are consumed only through dyndep-added inputs of statements bound to the same file"])
    simprops.replay_regressions(ck, PROP)
    n = 40000 if thorough else 4000
    simcheck.campaign(ck, PROPS, n, max_edges=7, max_ops=8, features=dict(dyndep=True), with_failures=False, runner_name='dyndep_inline',
                      nontrivial_fn=lambda g, ops, sim, feats: 'dyndep_built_and_adds_generated_input' in sim.labels)
    r2 = common.run_workers(invalid_worker, [(w, (4000 if thorough else 150)) for w in range(common.NCPU)])
    ck.merge(r2)
    r3 = common.run_workers(truncation_sweep_worker, [(w, common.NCPU) for w in range(common.NCPU)])
    ck.merge(r3)
    ck.extra_cov['truncation_offsets_exhaustive'] = r3.evaluations
    for f in r2.failures + r3.failures:
        if f.get('harness_error'):
            continue
        fails = sum(1 for _ in range(3) if replay_case(f['case']))
        if fails == 3:
            ck.violation(f['case'], f['why'])
        else:
            ck.res.notes.append("FLAKY %d/3: %s" % (fails, f['why'][:200]))
    return ck.finish()


def replay(path):
    j = json.load(open(path))
    why = replay_case(j.get('case', j))
    if why:
        print("finding:", why)
        print("VIOLATION property=%s replay=%s" % (PROP, path))
        return 1
    print("replay: no violation")
    return 0
