from . import simprops
PROP = "C04"


def run(tier):
    ck = simprops.run_prop(PROP, tier, n_quick=6000, n_thorough=80000, e2e=(300, 4000), all_schedules=(800, 10000), late_targets=(500, 6000))
    return ck.finish()


def replay(path):
    return simprops.replay(PROP, path)
