"""C09 — the deps log survives torn writes, restarts and compaction.
Sessions of a real DepsLog on a real file (probe kind 'depslog'); every truncation offset, garbage tails and
structured damage after a valid prefix, each followed by an appending session and a reload; oracle = M-depslog
(independent parser of the binary format: records complete and well-formed, fold, end offset of the last good one)."""
import json, os, struct, traceback
from hypothesis import given, settings, seed as hseed, HealthCheck, Phase, Verbosity, strategies as st
from .. import common
from ..probe import Probe, ProbeDied

PROP = "C09"
SIG = b"# ninjadeps\n"
VERSION = 4
MAXREC = (1 << 19) - 1


def hx(b):
    return b.hex()


def parse(b):
    """M-depslog. Returns None if the header is not a valid current header (log is discarded), else
    dict(paths=[...], deps={out: (mtime, [ins])}, good_end=offset behind the last complete well-formed record,
         clean_eof=bool)"""
    if len(b) < 16 or b[:12] != SIG or struct.unpack("<i", b[12:16])[0] != VERSION:
        return None
    off = 16
    paths, ids, deps = [], {}, {}
    while True:
        if off + 4 > len(b):
            break
        size = struct.unpack("<I", b[off:off + 4])[0]
        is_deps = size >> 31
        size &= 0x7FFFFFFF
        if size > MAXREC or off + 4 + size > len(b):
            break
        pl = b[off + 4:off + 4 + size]
        if is_deps:
            if size % 4 or size < 12:
                break
            vals = struct.unpack("<%di" % (size // 4), pl)
            out_id = vals[0]
            mtime = ((vals[2] & 0xFFFFFFFF) << 32) | (vals[1] & 0xFFFFFFFF)
            if mtime >= 1 << 63:
                mtime -= 1 << 64
            ins = vals[3:]
            if not (0 <= out_id < len(paths)) or any(not (0 <= i < len(paths)) for i in ins):
                break
            deps[paths[out_id]] = (mtime, [paths[i] for i in ins])
        else:
            if size % 4 or size < 8:
                break
            path = pl[:-4]
            for _ in range(3):
                if path.endswith(b"\0"):
                    path = path[:-1]
            if not path:
                break
            if struct.unpack("<I", pl[-4:])[0] != (~len(paths)) & 0xFFFFFFFF:
                break
            if path in ids:
                break
            ids[path] = len(paths)
            paths.append(path)
        off += 4 + size
    return dict(paths=paths, deps=deps, good_end=off, clean_eof=(off == len(b)))


def path_record(path, idx):
    pad = (4 - len(path) % 4) % 4
    return struct.pack("<I", len(path) + pad + 4) + path + b"\0" * pad + struct.pack("<I", (~idx) & 0xFFFFFFFF)


def deps_record(out_id, mtime, ins):
    return struct.pack("<I", (12 + 4 * len(ins)) | 0x80000000) + struct.pack("<iII", out_id, mtime & 0xFFFFFFFF, (mtime >> 32) & 0xFFFFFFFF) + \
        b"".join(struct.pack("<i", i) for i in ins)


DAMAGE = ['deps_size4', 'deps_size8', 'neg_out', 'big_out', 'huge_out', 'neg_in', 'big_in', 'unaligned_path', 'nul_path',
          'bad_checksum', 'dup_path', 'oversize', 'unaligned_deps', 'zero_size']


def damage_bytes(kind, npaths, first_path):
    if kind == 'deps_size4':
        return struct.pack("<I", 4 | 0x80000000) + struct.pack("<i", 0)
    if kind == 'deps_size8':
        return struct.pack("<I", 8 | 0x80000000) + struct.pack("<ii", 0, 1)
    if kind == 'neg_out':
        return deps_record(-1, 5, [])
    if kind == 'big_out':
        return deps_record(npaths, 5, [])
    if kind == 'huge_out':
        return deps_record(0x7ffffff0, 5, [])
    if kind == 'neg_in':
        return deps_record(0, 5, [-2]) if npaths else deps_record(0, 5, [])
    if kind == 'big_in':
        return deps_record(0, 5, [npaths + 3]) if npaths else deps_record(3, 5, [])
    if kind == 'unaligned_path':
        p = b"zz"
        return struct.pack("<I", len(p) + 4) + p + struct.pack("<I", (~npaths) & 0xFFFFFFFF)
    if kind == 'nul_path':
        return struct.pack("<I", 8) + b"\0\0\0\0" + struct.pack("<I", (~npaths) & 0xFFFFFFFF)
    if kind == 'bad_checksum':
        return path_record(b"chk", npaths + 1)
    if kind == 'dup_path':
        return path_record(first_path or b"dup", npaths)
    if kind == 'oversize':
        return struct.pack("<I", MAXREC + 1) + b"x" * 64
    if kind == 'unaligned_deps':
        return struct.pack("<I", 13 | 0x80000000) + b"\0" * 13
    return struct.pack("<I", 0)     # zero_size path record


@st.composite
def names(draw, big):
    k = draw(st.integers(0, 12))
    base = draw(st.sampled_from([b"a", b"b.h", b"dir/c.o", b"x y", b"\xc3\xa9", b"d"]))
    n = draw(st.integers(0, 9))
    s = base + b"%d" % n + b"_" * draw(st.integers(0, 3))      # lengths cover every padding residue
    if k == 0:
        s += b"L" * draw(st.integers(100, 700))
    if big and k == 1:
        s += b"H" * draw(st.sampled_from([MAXREC - 8 - len(s), MAXREC - 4 - len(s), 70000]))
    return s


@st.composite
def histories(draw, big):
    nn = draw(st.integers(2, 7))
    pool = draw(st.lists(names(big), min_size=nn, max_size=nn, unique=True))
    ops = []
    for s in range(draw(st.integers(1, 4))):
        ops.append(dict(op='open'))
        for _ in range(draw(st.integers(0, 6))):
            k = draw(st.integers(0, 9))
            if k <= 7:
                ops.append(dict(op='record', out=draw(st.integers(0, nn - 1)), mtime=draw(st.sampled_from([1, 2, 77, 2 ** 31, 2 ** 32 + 5, 2 ** 40])),
                                ins=draw(st.lists(st.integers(0, nn - 1), max_size=4)), rep=1))
            elif k == 8:
                ops.append(dict(op='recompact', live=draw(st.lists(st.integers(0, nn - 1), max_size=nn, unique=True))))
            else:
                ops.append(dict(op='check'))
        ops.append(dict(op='close'))
        t = draw(st.integers(0, 7))
        if t == 0:
            ops.append(dict(op='scan', append=draw(st.booleans())))
        elif t <= 2:
            ops.append(dict(op='tear', back=draw(st.integers(1, 40))))
        elif t == 3:
            ops.append(dict(op='garbage', bytes=draw(st.binary(min_size=1, max_size=24))))
        elif t == 4:
            ops.append(dict(op='damage', kind=draw(st.sampled_from(DAMAGE + ['bad_checksum'])), name=draw(st.integers(0, nn - 1)), skew=draw(st.integers(0, 2))))
    ops.append(dict(op='check'))
    return dict(names=pool, ops=ops)


class Violation(Exception):
    def __init__(self, why):
        Exception.__init__(self, why)
        self.why = why


def expected_deps(m):
    return {hx(o): dict(mtime=v[0], ins=[hx(i) for i in v[1]]) for o, v in m['deps'].items()}


def check_load(where, raw, exists, r, size_key='size_after_load'):
    """r: result of a Load on bytes `raw`"""
    if r['load'] == 0:
        raise Violation("%s: LOAD_ERROR %r" % (where, r['warn']))
    if not exists:
        if r['deps']:
            raise Violation("%s: deps from a missing file" % where)
        return None
    m = parse(raw)
    if m is None:
        if r['deps'] or r.get(size_key, -1) not in (-1,):
            raise Violation("%s: invalid header must discard the log (deps=%r size=%r)" % (where, r['deps'], r.get(size_key)))
        return None
    want = expected_deps(m)
    if r['deps'] != want:
        miss = [k for k in want if r['deps'].get(k) != want[k]]
        extra = [k for k in r['deps'] if k not in want]
        raise Violation("%s: loaded deps differ from the complete records in the file: wrong/missing %s extra %s (file %d bytes, last good record ends at %d)"
                        % (where, [bytes.fromhex(x) for x in miss][:3], [bytes.fromhex(x) for x in extra][:3], len(raw), m['good_end']))
    if r.get(size_key) is not None and r[size_key] != m['good_end']:
        raise Violation("%s: file is %d bytes after recovery, the last complete record ends at %d (file had %d bytes)"
                        % (where, r[size_key], m['good_end'], len(raw)))
    return m


def translate(h):
    names = h['names']
    P = []
    is_open = False
    for i, op in enumerate(h['ops']):
        k = op['op']
        if k == 'open':
            P += [dict(op='raw'), dict(op='open'), dict(op='raw')]
            is_open = True
        elif k == 'record' and is_open:
            P.append(dict(op='record', out=hx(names[op['out']]), mtime=op['mtime'], ins=[hx(names[x]) for x in op['ins']]))
        elif k == 'check':
            P += [dict(op='raw'), dict(op='load_dump')]
        elif k == 'close':
            P.append(dict(op='close'))
            is_open = False
        elif k == 'recompact' and is_open:
            P += [dict(op='recompact', live=[hx(names[x]) for x in op['live']]), dict(op='raw'), dict(op='load_dump')]
        elif k == 'scan' and not is_open:
            P += [dict(op='raw'), dict(op='tear_scan', then_append=op['append'])]
        elif k == 'tear' and not is_open:
            P += [dict(op='raw'), dict(op='truncate_back', back=op['back']), dict(op='raw'), dict(op='load_dump')]
        elif k == 'garbage' and not is_open:
            P += [dict(op='raw'), dict(op='append_raw', bytes=hx(op['bytes'])), dict(op='raw'), dict(op='load_dump')]
        elif k == 'damage' and not is_open:
            P += [dict(op='raw'), dict(op='append_damage', kind=op['kind'], path=hx(names[op.get('name', 0)]), skew=op.get('skew', 0)), dict(op='raw'), dict(op='load_dump')]
    return P


def run_history(probe, h):
    names = h['names']
    d = probe.newdir()
    labels = set()
    try:
        P = translate(h)
        R = probe.request(dict(kind='depslog', dir=d, ops=P), timeout_ms=120000)['results']
        return interpret(h, P, R, labels)
    finally:
        probe.rmdir(d)


def interpret(h, P, R, labels):
    names = h['names']
    it = iter(zip(P, R))

    def nxt(kind):
        p, r = next(it)
        assert p['op'] == kind and r['op'] == kind, (p['op'], kind)
        return p, r

    model = {}           # hexname -> dict(mtime, ins): the most recently *recorded* deps per output (C09 clause 2)
    is_open = False

    def against_model(where, loaded):
        if loaded != model:
            bad = [bytes.fromhex(x) for x in set(loaded) | set(model) if loaded.get(x) != model.get(x)]
            raise Violation("%s: deps returned for %s are not those most recently recorded: got %r, recorded %r"
                            % (where, bad[:2], {bytes.fromhex(x)[:20]: loaded.get(x) for x in map(hx, bad[:2])},
                               {bytes.fromhex(x)[:20]: model.get(x) for x in map(hx, bad[:2])}))

    scans = 0
    damaged_then_recorded = False
    dirty_tail = False
    for op in h['ops']:
        k = op['op']
        if k == 'open':
            _, rr = nxt('raw')
            _, r = nxt('open')
            before = bytes.fromhex(rr['bytes'])
            m = check_load('open', before, rr['exists'], r)
            if not r.get('open_ok', True):
                raise Violation("open: OpenForWrite failed: %r" % r.get('open_err'))
            against_model('open', r['deps'])
            if r['deps_after_open'] != r['deps']:
                raise Violation("open: opening for write (automatic recompaction) changed the deps: %r -> %r" % (r['deps'], r['deps_after_open']))
            _, ra = nxt('raw')
            is_open = True
        elif k == 'record' and is_open:
            p, r = nxt('record')
            if not r['ok']:
                # only legitimate reason: record larger than the format allows
                if 12 + 4 * len(op['ins']) <= MAXREC and all(len(names[i]) + 8 <= MAXREC for i in op['ins'] + [op['out']]):
                    raise Violation("RecordDeps failed")
                continue
            model[hx(names[op['out']])] = dict(mtime=op['mtime'], ins=[hx(names[i]) for i in op['ins']])
            if dirty_tail:
                damaged_then_recorded = True
        elif k == 'check':
            _, rr = nxt('raw')
            _, r = nxt('load_dump')
            check_load('check', bytes.fromhex(rr['bytes']), rr['exists'], r)
            against_model('check', r['deps'])
        elif k == 'close':
            nxt('close')
            is_open = False
        elif k == 'recompact' and is_open:
            _, r = nxt('recompact')
            _, rr = nxt('raw')
            _, rl = nxt('load_dump')
            if not r['ok']:
                raise Violation("recompact failed: %r" % r['err'])
            live = set(hx(names[x]) for x in op['live'])
            want = {o: v for o, v in r['before'].items() if o in live}
            if r['deps'] != want:
                raise Violation("recompaction must keep exactly the entries whose output still has a deps statement: kept %r, expected %r"
                                % (sorted(bytes.fromhex(x) for x in r['deps']), sorted(bytes.fromhex(x) for x in want)))
            check_load('after recompact', bytes.fromhex(rr['bytes']), rr['exists'], rl)
            if rl['deps'] != want:
                raise Violation("recompacted file does not hold the kept entries")
            model = dict(want)
            labels.add('recompact')
        elif k == 'scan' and not is_open:
            _, rr = nxt('raw')
            b = bytes.fromhex(rr['bytes'])
            _, r = nxt('tear_scan')
            expand_same(r['scans'], ('deps', 'reload_deps'))
            for sc in r['scans']:
                m = check_load('tear at %d of %d' % (sc['n'], len(b)), b[:sc['n']], True, sc)
                if op['append'] and 'reload_deps' in sc:
                    want = expected_deps(m) if m else {}
                    want[hx(b"appended.o")] = dict(mtime=4242, ins=[hx(b"appended.h")])
                    if sc['reload'] == 0 or sc['reload_deps'] != want:
                        raise Violation("tear at %d of %d: a session that appended after recovery is not read back by the next one "
                                        "(reload=%r warn=%r): lost %s" % (sc['n'], len(b), sc['reload'], sc['reload_warn'],
                                                                         [bytes.fromhex(x) for x in want if sc['reload_deps'].get(x) != want[x]][:3]))
            labels.add('tear_scan_append' if op['append'] else 'tear_scan')
            scans += len(r['scans'])
        elif k in ('tear', 'garbage', 'damage') and not is_open:
            _, rr0 = nxt('raw')
            nxt({'tear': 'truncate_back', 'garbage': 'append_raw', 'damage': 'append_damage'}[k])
            _, rr = nxt('raw')
            _, r = nxt('load_dump')
            b = bytes.fromhex(rr['bytes'])
            m = check_load(k, b, rr['exists'], r)
            # the file was changed from outside: what it now completely holds is the new ground truth
            model = expected_deps(m) if m else {}
            if m is not None and not m['clean_eof']:
                dirty_tail = True
                labels.add(k + '_inside_record')
    h['_scans'] = scans
    return dict(nontrivial=damaged_then_recorded, labels=labels)


def expand_same(scans, fields):
    """the probe sends a dump only when it differs from the previous offset's"""
    prev = {}
    for sc in scans:
        for f in fields:
            if sc.pop(f + '_same', False):
                sc[f] = prev[f]
            elif f in sc:
                prev[f] = sc[f]


class Falsified(Exception):
    pass


def worker(widx, n_examples, big):
    res = common.Result()
    state = {}
    budget = common.ShrinkBudget()
    with Probe("fast") as pf, Probe("san") as ps:
        @hseed(common.sub_seed(PROP, widx))
        @settings(max_examples=n_examples, deadline=None, database=None, suppress_health_check=list(HealthCheck),
                  phases=[Phase.generate, Phase.shrink], verbosity=Verbosity.quiet, report_multiple_bugs=False)
        @given(histories(big))
        def test(h):
            case = dict(names=[hx(n) for n in h['names']], ops=[encode_op(o) for o in h['ops']])
            probe = ps if int(common.digest(case), 16) % 3 == 0 else pf
            dg = common.digest(case)
            if budget.skip(dg):
                return
            try:
                r = run_history(probe, h)
            except Violation as v:
                state['fail'] = (case, v.why)
                budget.failed(dg)
                raise Falsified()
            except ProbeDied as dd:
                state['fail'] = (case, "ninja crashed/exited/hung while handling the deps log: " + dd.describe())
                budget.failed(dg)
                raise Falsified()
            res.case(case, r['nontrivial'], ['h:' + l for l in r['labels']],
                     sample=dict(names=[repr(n)[:40] for n in h['names']], ops=case['ops'][:8]) if r['nontrivial'] else None)
            res.extra['tear_offsets_checked'] += h.get('_scans', 0)
        common.run_hypothesis(test, state, res)
    return res


def encode_op(o):
    o = dict(o)
    if isinstance(o.get('bytes'), bytes):
        o['bytes'] = hx(o['bytes'])
    return o


def decode_case(case):
    ops = []
    for o in case['ops']:
        o = dict(o)
        if o['op'] == 'garbage':
            o['bytes'] = bytes.fromhex(o['bytes'])
        ops.append(o)
    return dict(names=[bytes.fromhex(n) for n in case['names']], ops=ops)


def replay_once(p, case):
    try:
        run_history(p, decode_case(case))
    except Violation as v:
        return v.why
    except ProbeDied as d:
        return "crash: " + d.describe()
    return None


def run(tier):
    big = tier == 'thorough'
    ck = common.Check(PROP, tier, "fault_enumeration",
                      "histories of DepsLog sessions (load/record/close/recompact; path lengths covering every padding residue, long paths, "
                      "mtimes above 2^32) on a real file; after a session: every truncation offset (all up to 3000 bytes, stratified beyond) loaded "
                      "afresh and optionally continued by an appending session and a reload, a cut inside the tail, a tail of random bytes, or one "
                      "structurally malformed record (short/negative/huge ids, unaligned or all-NUL path, bad checksum, duplicate, oversize) followed "
                      "by further sessions. Oracle M-depslog = independent parser: deps == fold of the complete well-formed records, file size after "
                      "recovery == end of the last good record. Non-trivial = tear/damage inside a record followed by a recording session and a reload.",
                      ["recovery may either truncate at the last good record or leave a cleanly ending file untouched"])
    n = 60000 if big else 8000
    res = common.run_workers(worker, [(w, max(1, n // common.NCPU), big) for w in range(common.NCPU)])
    ck.merge(res)
    for f in res.failures:
        if f.get('harness_error'):
            continue
        with Probe("san") as p:
            fails = sum(1 for _ in range(3) if replay_once(p, f['case']))
        if fails == 3:
            ck.violation(f['case'], f['why'])
        else:
            ck.res.notes.append("FLAKY %d/3: %s" % (fails, f['why'][:200]))
    return ck.finish()


def replay(path):
    j = json.load(open(path))
    case = j.get('case', j)
    with Probe("san") as p:
        why = replay_once(p, case)
    if why:
        print("finding:", why[:2000])
        print("VIOLATION property=%s replay=%s" % (PROP, path))
        return 1
    print("replay: no violation")
    return 0
