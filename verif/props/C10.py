from . import simprops
PROP = "C10"


def run(tier):
    ck = simprops.run_prop(PROP, tier, n_quick=5000, n_thorough=60000, runner_name='metamorphic', with_failures=False,
                           features=dict(deps=True, hidden_generated=True))
    return ck.finish()


def replay(path):
    return simprops.replay(PROP, path)
