from . import simprops
PROP = "C01"


def run(tier):
    ck = simprops.run_prop(PROP, tier, n_quick=6000, n_thorough=80000, e2e=(500, 5000), late_targets=(600, 8000))
    return ck.finish()


def replay(path):
    return simprops.replay(PROP, path)
