"""C13 — no file content can crash, corrupt or hang ninja.
libFuzzer targets (ASan+UBSan, asserts on) for every input format, each *using* what it parsed; token-alphabet
enumerators (every sequence of up to N tokens); structure-aware binary-log generation; a regression tier with the
inputs behind known/fixed findings. Oracle: no sanitizer report, no abort/uncaught exception, no exit other than
through Fatal()/error return, no input running longer than 20 s (replayed 3x)."""
import glob, json, os, shutil, subprocess, threading
from .. import build, common, fuzz

PROP = "C13"
CORPUS = os.path.join(common.VERIF, "corpus")
# target -> (workers, max_len, quick runs, thorough runs)
TARGETS = {
    "fuzz_manifest": (4, 600, 120000, 4000000),
    "fuzz_dyndep": (2, 300, 150000, 4000000),
    "fuzz_depfile_raw": (2, 300, 300000, 8000000),
    "fuzz_buildlog": (2, 400, 60000, 1500000),
    "fuzz_depslog": (3, 400, 100000, 3000000),
    "fuzz_misc": (3, 300, 300000, 8000000),
}
# (target, token file, prefix, tokens quick, tokens thorough)
ENUMS = [
    ("fuzz_manifest", "manifest", "", 3, 5),
    ("fuzz_dyndep", "dyndep", "\\x00", 3, 5),
    ("fuzz_dyndep", "dyndep", "\\x01ninja_dyndep_version = 1\\n", 3, 5),
    ("fuzz_depfile_raw", "depfile", "", 5, 7),
    ("fuzz_misc", "cl", "\\x00\\x01", 5, 7),
    ("fuzz_misc", "makeflags", "\\x01\\x00", 5, 6),
    ("fuzz_misc", "status", "\\x02\\x07", 4, 5),
]


def manifest_dict(path):
    toks = []
    for f in sorted(glob.glob("/repo/misc/afl-fuzz-tokens/*")) + sorted(glob.glob(os.path.join(build.repo(), "misc/afl-fuzz-tokens/*"))):
        b = open(f, "rb").read()
        if b and b not in toks:
            toks.append(b)
    toks += [b"rule ", b"build ", b"subninja ", b"include ", b"default ", b"pool ", b"depth = ", b"command = ", b"dyndep = ", b"|@ ", b"$\n", b"${in}",
             b"phony", b"\0", b"ninja_dyndep_version = 1\n", b"restat = 1", b"depfile = ", b"deps = gcc", b"generator = 1", b"rspfile = ",
             # the file names of the host manifests of fuzz_dyndep / fuzz_manifest: a dyndep file can only say something new
             # about the graph by naming its files (including the dyndep file itself)
             b"dd", b"out2", b"imp", b"other", b"in2", b"ddin", b"src", b"out", b"build.ninja", b"a.ninja", b": dyndep", b" | ", b" || "]
    with open(path, "w") as f:
        for t in toks:
            f.write('"' + "".join("\\x%02x" % c for c in t) + '"\n')


def enum_worker(target, tokfile, prefix, ntok, part, nparts):
    r = common.Result()
    exe = build.program("enum_main", "san", sources=[target + ".cc"], extra_flags=["-DVERIF_ENUM=1"])
    root = common.scratch_root()
    last = os.path.join(root, "last")
    try:
        p = subprocess.run([exe, os.path.join(CORPUS, "tokens", tokfile), str(ntok), str(nparts), str(part), prefix], capture_output=True, text=True,
                           errors="replace", cwd=root, env=dict(os.environ, VERIF_LAST_INPUT=last, ASAN_OPTIONS="detect_leaks=0:allocator_may_return_null=1",
                                                                UBSAN_OPTIONS="print_stacktrace=1:halt_on_error=1"))
        if p.returncode != 0:
            data = open(last, "rb").read() if os.path.exists(last) else b""
            r.failures.append(dict(case=dict(target=target, input_hex=data.hex()),
                                   why="%s (token enumeration over %s) died rc=%d on %r: %s" % (target, tokfile, p.returncode, data[:200], p.stderr[-1500:])))
        else:
            r.evaluations = json.loads(p.stdout.strip().splitlines()[-1])["evaluations"]
            r.extra["enumerated_token_strings"] = r.evaluations
    finally:
        shutil.rmtree(root, ignore_errors=True)
    return r


def regress(ck):
    """inputs behind known / repaired findings are replayed on every run (seconds)"""
    exe = build.program("fuzz_manifest", "fuzz", fuzzer=True)
    root = common.scratch_root()
    try:
        # D7: a manifest that includes itself, with the harness' depth cut switched off
        for name, content in (("self_include", b"include build.ninja\n"), ("self_subninja", b"subninja build.ninja\n"),
                              ("mutual_include", b"include a.ninja\n\0include build.ninja\n")):
            p = os.path.join(root, name)
            open(p, "wb").write(content)
            r = subprocess.run([exe, p], capture_output=True, text=True, errors="replace", timeout=300,
                               env=dict(os.environ, VERIF_NO_DEPTH_CUT="1", ASAN_OPTIONS="detect_leaks=0:detect_stack_use_after_return=0"))
            ck.res.evaluations += 1
            ck.res.extra["regression_inputs"] += 1
            if r.returncode != 0:
                tail = r.stderr[-600:]
                ck.violation(content, "manifest that includes itself (%s): ninja recursed without bound: %s" % (name, " ".join(tail.split())[:400]))
        # cycles among a rule's own variables (a documented error: "cycle in rule variables") in every combination of
        # 1-3 reserved names, for a build statement with and without bindings of its own, evaluated as the build would
        names = ["command", "description", "depfile", "rspfile", "rspfile_content", "dyndep"]
        n = 0
        import itertools
        for k in (1, 2, 3):
            for combo in itertools.permutations(names, k):
                if "command" not in combo and k < 3:
                    continue
                for own in (b"", b"  flags = -O2\n", b"  description = D $out\n", b"  pool = console\n"):
                    if own.startswith(b"  description") and "description" in combo:
                        continue
                    rule = b"rule r\n"
                    if "command" not in combo:
                        rule += b"  command = c $" + combo[0].encode() + b"\n"
                    for i, v in enumerate(combo):
                        rule += b"  " + v.encode() + b" = x $" + combo[(i + 1) % k].encode() + b" y\n"
                    if "rspfile" in combo and "rspfile_content" not in combo:
                        rule += b"  rspfile_content = z\n"
                    if "rspfile_content" in combo and "rspfile" not in combo:
                        rule += b"  rspfile = o.rsp\n"
                    content = rule + b"build o: r i\n" + own + b"build p: r o\n"
                    pth = os.path.join(root, "cyc%d" % n)
                    n += 1
                    open(pth, "wb").write(content)
                    r = subprocess.run([exe, pth], capture_output=True, text=True, errors="replace", timeout=120,
                                       env=dict(os.environ, ASAN_OPTIONS="detect_leaks=0:detect_stack_use_after_return=0"))
                    ck.res.evaluations += 1
                    ck.res.extra["rule_variable_cycle_manifests"] += 1
                    if r.returncode != 0:
                        ck.violation(content, "cyclic rule variables (%s; build statement %s bindings of its own): ninja crashed instead of reporting the cycle: %s"
                                     % (" -> ".join(combo), "with" if own else "without", " ".join(r.stderr[-500:].split())[:400]))
                        return
    finally:
        shutil.rmtree(root, ignore_errors=True)


def run(tier):
    thorough = tier == "thorough"
    ck = common.Check(PROP, tier, "exploration",
                      "libFuzzer (ASan+UBSan, asserts on, coverage-guided, seeded corpus + dictionary) on 6 targets covering manifest+includes (4 virtual "
                      "files, result used: bindings evaluated, dirty scan, dry-run build), dyndep files (4 host manifests, loader + build), depfiles, "
                      ".ninja_log (incl. lines beyond the 256 KiB read buffer, then restat/recompact/reload), .ninja_deps (raw, behind a valid header, and "
                      "structure-aware records with boundary field values, then GetDeps/reverse deps/record/recompact/reload), /showIncludes output, "
                      "MAKEFLAGS, status formats, elide/strip/JSON/shell helpers; plus EVERY sequence of up to N tokens over each text format's token "
                      "alphabet; plus regression inputs. Non-trivial = input accepted by its parser (or reaching the deepest stage); distinct by input hash.",
                      ["inputs longer than max_len (300-600 bytes) only through the generated boundary families",
                       "MSan-class bugs are out of reach (no instrumented libstdc++)", "Fatal() is a legitimate 'reports an error' outcome"])
    regress(ck)
    dict_path = os.path.join(common.scratch_root(), "manifest.dict")
    manifest_dict(dict_path)
    results = {}

    def one(t):
        w, maxlen, q, th = TARGETS[t]
        seeds = os.path.join(CORPUS, t)
        results[t] = fuzz.run_target(t, runs=th if thorough else q, max_len=maxlen, workers=w, seeds_dir=seeds if os.path.isdir(seeds) else None,
                                     dict_file=dict_path if t in ("fuzz_manifest", "fuzz_dyndep") else None, hang_is_violation=True,
                                     per_input_timeout=20, empty_corpus_workers=1 if thorough else 0)
    # build everything first (serially: the build cache lock), then run all targets at once
    for t in TARGETS:
        build.program(t, "fuzz", fuzzer=True)
    ths = [threading.Thread(target=one, args=(t,)) for t in TARGETS]
    for t in ths:
        t.start()
    for t in ths:
        t.join()
    for t, (res, viol) in results.items():
        ck.merge(res)
        for data, why in viol:
            ck.violation(data, why)
    shutil.rmtree(os.path.dirname(dict_path), ignore_errors=True)
    # token enumerators
    jobs = []
    for target, tokfile, prefix, nq, nt in ENUMS:
        n = nt if thorough else nq
        parts = 4 if thorough else 2
        jobs += [(target, tokfile, prefix, n, p, parts) for p in range(parts)]
    build_first = set(j[0] for j in jobs)
    for t in build_first:
        build.program("enum_main", "san", sources=[t + ".cc"], extra_flags=["-DVERIF_ENUM=1"])
    eres = common.run_workers(enum_worker, jobs)
    ck.merge(eres)
    for f in eres.failures:
        if not f.get("harness_error"):
            ck.violation(bytes.fromhex(f["case"]["input_hex"]), f["why"])
    ck.extra_cov["exhaustive"] = False
    return ck.finish()


def replay(path):
    data = open(path, "rb").read()
    bad = 0
    for t in TARGETS:
        exe = build.program(t, "fuzz", fuzzer=True)
        for env_extra in ({}, {"VERIF_NO_DEPTH_CUT": "1"}):
            p = subprocess.run([exe, path], capture_output=True, text=True, errors="replace", timeout=600,
                               env=dict(os.environ, ASAN_OPTIONS="detect_leaks=0", **env_extra))
            if p.returncode != 0:
                print("target %s fails on this input: %s" % (t, p.stderr[-800:]))
                bad += 1
                break
    if bad:
        print("VIOLATION property=%s replay=%s" % (PROP, path))
        return 1
    print("replay: no target fails on this input")
    return 0
