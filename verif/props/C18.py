"""C18 — cleaning removes only what ninja built, and all of it.
Generated graphs (incl. dyndep-discovered outputs, multi-output statements, generator and phony statements, rspfiles
left by failed commands, depfiles) are built in the SIM, the tree is perturbed (some outputs/depfiles deleted, stray
files added), then one clean scope is run through the real Cleaner on the virtual disk with the real logs:
-t clean (with/without -g, with/without -n), by target set, by rule set, and -t cleandead after statements were removed,
renamed or turned into sources.  Oracle M-clean: removed == existing files of the scope; a following build re-creates
them and reproduces the clean-build tree."""
import copy, json, os, traceback
from hypothesis import given, settings, seed as hseed, HealthCheck, Phase, Verbosity, strategies as st
from .. import common, graphs, models, simrun
from ..models import key, all_outs, producer_map
from ..probe import Probe, ProbeDied
from . import simprops

PROP = "C18"


def rule_name(e):
    if e['phony']:
        return 'phony'
    if e.get('bare'):
        return "bare_%s" % key(e).replace("/", "_")
    return 'ccrsp' if e.get('rsp') is not None else 'cc'


def edge_files(g, e, files):
    """everything the statement's clean removes: outputs (with what an existing dyndep file adds), depfile, rspfile"""
    out = list(all_outs(e))
    if e.get('dd') and e['dd'] in files:
        out += e.get('dd_outs', [])
    if models.depfile_path(e):
        out.append(models.depfile_path(e))
    if e.get('rsp') is not None:
        out.append(key(e) + ".rsp")
    return out


def scope(g, files, mode, names, generator):
    prod = {}
    for e in g['edges']:
        for o in all_outs(e) + (e.get('dd_outs', []) if e.get('dd') and e['dd'] in files else []):
            prod[o] = e
    sel = []
    if mode == 'all':
        sel = [e for e in g['edges'] if not e['phony'] and (generator or not e['generator'])]
    elif mode == 'rules':
        sel = [e for e in g['edges'] if rule_name(e) in names and not e['phony']]
    elif mode == 'targets':
        seen = set()
        todo = list(names)
        while todo:
            n = todo.pop()
            e = prod.get(n)
            if e is None or key(e) in seen:
                continue
            seen.add(key(e))
            if not e['phony']:
                sel.append(e)
            todo += e['exp'] + e['imp'] + e['oo'] + ([e['dd']] if e.get('dd') else []) + (e.get('dd_ins', []) if e.get('dd') and e['dd'] in files else [])
            # recorded discovered inputs are part of the graph only after a scan loaded them: the cleaner does not load them
    s = set()
    for e in sel:
        s.update(edge_files(g, e, files))
    return s


def dead_scope(g, log_paths, files):
    """cleandead: logged paths that no longer appear anywhere in the (manifest) graph"""
    used = set()
    for e in g['edges']:
        used.update(all_outs(e))
        used.update(e['exp'] + e['imp'] + e['oo'] + e.get('vals', []))
        if e.get('dd'):
            used.add(e['dd'])
            if e['dd'] in files:
                used.update(e.get('dd_outs', []))
                used.update(e.get('dd_ins', []))
    return set(p for p in log_paths if p not in used)


def run_case(probe, g, ops, spec):
    """spec: dict(mode=all|targets|rules|dead, generator, dry, sel=[ints], perturb=[ints], change=...)"""
    sim = simrun.Sim(probe, g)
    labels = set()
    try:
        if not sim.establish():
            return None, labels
        for op in sim.expand(ops):
            if sim.stop:
                return None, labels
            if op['op'] == 'build':
                sim.build(op)
            elif op['op'] in ('edit', 'touch', 'variant', 'rspvar', 'del_out', 'del_depfile'):
                sim.apply_change(op)
        if sim.findings:
            return None, labels
        g = sim.g
        cmds = sim.cmd_edges()
        if not cmds:
            return None, labels
        mode = spec['mode']
        # ---- cleandead situations: statements removed / turned into sources between builds
        if mode == 'dead':
            # (a removed statement's output may still be named as a validation by a remaining one: it then still appears in
            # the graph, as a plain file)
            removable = [e for e in g['edges'] if not e.get('is_dd_producer') and not any(x.get('dd') in all_outs(e) for x in g['edges'])]
            victims = [removable[i % len(removable)] for i in spec['sel'][:2]] if removable else []
            for v in victims:
                if v in g['edges']:
                    g['edges'].remove(v)
                    # its outputs become plain files; those still consumed by others are sources now
                    for o in all_outs(v):
                        if any(o in x['exp'] + x['imp'] + x['oo'] + x.get('vals', []) for x in g['edges']) and o not in g['srcs']:
                            g['srcs'].append(o)
                            if any(o in x.get('vals', []) for x in g['edges']):
                                labels.add('former_output_still_named_as_validation')
                    labels.add('statement_removed')
            former = set(o for v in victims for o in all_outs(v))
            g['srcs'] = [x for x in g['srcs'] if x not in former or any(x in y['exp'] + y['imp'] + y['oo'] + y.get('vals', []) for y in g['edges'])]
            # dyndep texts must match the remaining statements
            for dd, info in g.get('dd_files', {}).items():
                if not info['produced'] and dd in sim.files:
                    sim.files[dd]['c'] = models.dyndep_text(g, dd)
            for e in g['edges']:
                if e.get('is_dd_producer'):
                    e['content_override'] = {key(e): dict(by='', table={}, default=models.dyndep_text(g, key(e)))}
                    if key(e) in sim.files:
                        sim.files[key(e)]['c'] = models.dyndep_text(g, key(e))
        # ---- perturb the tree
        allf = sorted(set(f for e in cmds for f in edge_files(g, e, sim.files)))
        for i in spec['perturb'][:3]:
            if allf:
                sim.files.pop(allf[i % len(allf)], None)
        sim.files['stray.txt'] = {'c': 'not made by ninja', 'm': sim.now + 1}
        sim.files['o_stray'] = {'c': 'looks like an output', 'm': sim.now + 2}
        # depfiles that deps=gcc statements left behind (ninja reads and removes them after the command; they stay after a
        # crash in between, a depfile that could not be parsed, or -d keepdepfile): still "depfiles of the statements in scope"
        if spec['perturb'] and spec['perturb'][0] % 2 == 0:
            for e in cmds:
                if e.get('deps') == 'gcc' and models.depfile_path(e) not in sim.files:
                    sim.files[models.depfile_path(e)] = {'c': "%s: %s\n" % (key(e), " ".join(e['exp'][:1])), 'm': sim.now + 3}
                    labels.add('depfile_left_behind_by_deps_statement')
        before = copy.deepcopy(sim.files)
        names = []
        if mode == 'targets':
            outs = [o for e in g['edges'] for o in all_outs(e)]
            names = sorted(set(outs[i % len(outs)] for i in spec['sel'][:3])) if outs else []
            if not names:
                return None, labels
        elif mode == 'rules':
            rn = sorted(set(rule_name(e) for e in g['edges']))       # 'phony' is a rule name like any other
            names = sorted(set(rn[i % len(rn)] for i in spec['sel'][:2])) if rn else []
            if not names:
                return None, labels
            if 'phony' in names:
                # files that carry the name of a phony statement exist (`build src: phony` declares a source; an alias may
                # share its name with a file or directory): they are not built files
                for e in g['edges']:
                    if e['phony']:
                        for o in all_outs(e):
                            sim.files.setdefault(o, {'c': 'a file named like a phony statement', 'm': sim.now + 4})
                before = copy.deepcopy(sim.files)
                labels.add('rule_phony_named')
        files = dict(sim.files)
        files['build.ninja'] = {'c': graphs.manifest(g), 'm': 1}
        req = dict(kind='clean', files=files, dirs=sim.dirs, now=sim.now + 5, logdir=sim.logdir, mode=mode, names=names,
                   generator=bool(spec['generator']), dry_run=bool(spec['dry']))
        try:
            r = probe.request(req, timeout_ms=20000)
        except ProbeDied as d:
            return dict(kind='cleaner crashed', detail=d.describe()), labels
        if r.get('phase') != 'clean':
            return None, labels
        # log as ninja recorded it
        logp = os.path.join(sim.logdir, ".ninja_log")
        log_paths = set()
        try:
            for l in open(logp, "rb").read().split(b"\n")[1:]:
                f = l.split(b"\t")
                if len(f) >= 5:
                    log_paths.add(f[3].decode())
        except FileNotFoundError:
            pass
        if mode == 'dead':
            sc = dead_scope(g, log_paths, before)
        else:
            sc = scope(g, before, mode, names, spec['generator'])
        want = set(p for p in sc if p in before)
        got = set(r['removed'])
        labels.add('mode_' + mode + ('_g' if spec['generator'] and mode == 'all' else '') + ('_n' if spec['dry'] else ''))
        if any(e.get('dd') and e.get('dd_outs') for e in g['edges']):
            labels.add('dyndep_outputs')
        detail = dict(mode=mode, names=names, generator=spec['generator'], dry=spec['dry'], manifest=graphs.manifest(g)[-600:])
        srcs = set(g['srcs']) | {'stray.txt', 'o_stray', 'build.ninja'} | set(d for d, i in g.get('dd_files', {}).items() if not i['produced'])
        phonies = set(o for e in g['edges'] if e['phony'] for o in all_outs(e))
        if spec['dry']:
            if got:
                return dict(kind='dry-run clean removed files', detail=dict(detail, removed=sorted(got))), labels
            if r['count'] != len(want):
                return dict(kind='dry-run clean reports %d files, %d are in scope and exist' % (r['count'], len(want)), detail=dict(detail, want=sorted(want))), labels
            return None, labels
        bad = (got & srcs) | (got & phonies)
        if bad:
            return dict(kind='clean removed a source file / phony name / unrelated file', detail=dict(detail, removed=sorted(bad))), labels
        if got - sc:
            return dict(kind='clean removed files outside its scope', detail=dict(detail, extra=sorted(got - sc), scope=sorted(sc))), labels
        if want - got:
            return dict(kind='clean left files of its scope behind', detail=dict(detail, left=sorted(want - got))), labels
        if want:
            labels.add('removed_something')
        # ---- a following build re-creates them
        # (not judged when the history ended with a failed command whose output still exists: whether the next build
        # trusts that file is the listed finding D8 and has nothing to do with what clean did; counted)
        failed_left = [k_ for k_ in sim.model.failed if any(o in sim.files for o in all_outs(sim.edge_by_key(k_) or {'outs': [], 'iouts': []}))]
        if failed_left and mode != 'dead':
            labels.add('post_clean_rebuild_not_judged_failed_output_present')
        if mode != 'dead' and not failed_left and 'rule_phony_named' not in labels:
            for p in got:
                sim.files.pop(p, None)
            sim.files.pop('stray.txt', None)
            sim.files.pop('o_stray', None)
            sim.synced = False
            n0 = len(sim.findings)
            simrun.check_recovery(sim, [key(e) for e in g['edges']], 'clean', detail)
            new = [f for f in sim.findings[n0:] if not f['known']]
            if new:
                return dict(kind='after clean: ' + new[0]['kind'].replace('C07', ''), detail=new[0]['detail']), labels
        return None, labels
    finally:
        sim.close()


def e2e_dead_case(root, g, sel, prep, dry):
    """real binary: build, remove statements from the manifest, then `-t cleandead` - directly, after `-t recompact`, or
    with a log that is due for recompaction when cleandead opens it (the recompaction predicate lives in ninja.cc and is
    reached by no in-process part). prep: 'none' | 'recompact' | 'bloat'"""
    import subprocess
    from .. import e2e
    sim = e2e.RealSim(root, g)
    labels = set()
    try:
        if not sim.establish():
            return None, labels
        g = sim.g
        removable = [e for e in g['edges'] if not e['phony']]
        if not removable:
            return None, labels
        log_before = set(sim.read_log())
        victims = []
        for i in sel[:2]:
            v = removable[i % len(removable)]
            if v in g['edges']:
                g['edges'].remove(v)
                victims.append(v)
                for o in all_outs(v):
                    if any(o in x['exp'] + x['imp'] + x['oo'] + x.get('vals', []) for x in g['edges']) and o not in g['srcs']:
                        g['srcs'].append(o)
                        if any(o in x.get('vals', []) for x in g['edges']):
                            labels.add('former_output_still_named_as_validation')
        former = set(o for v in victims for o in all_outs(v))
        # a former output counts as a source only while a remaining statement still consumes it or names it as a validation
        g['srcs'] = [x for x in g['srcs'] if x not in former or any(x in y['exp'] + y['imp'] + y['oo'] + y.get('vals', []) for y in g['edges'])]
        open(sim.path("build.ninja"), "w").write(graphs.real_manifest(g, sim.vtool))
        env = dict(os.environ, TERM="dumb")
        env.pop("MAKEFLAGS", None)
        lp = sim.path(".ninja_log")
        if prep == 'recompact':
            p0 = subprocess.run([sim.ninja, "-t", "recompact"], cwd=sim.dir, env=env, capture_output=True, timeout=60)
            if p0.returncode != 0:
                return dict(kind='-t recompact failed', detail=dict(out=(p0.stdout + p0.stderr).decode('utf-8', 'replace')[-300:])), labels
            labels.add('dead_after_explicit_recompact')
        elif prep == 'bloat' and os.path.exists(lp):
            raw = open(lp, "rb").read()
            lines = [l for l in raw.split(b"\n")[1:] if l.count(b"\t") >= 4]
            if lines and raw.endswith(b"\n"):
                uniq = len(set(l.split(b"\t")[3] for l in lines))
                target = max(100, 3 * uniq) + 5          # past the threshold: the next invocation that opens the log recompacts
                add = []
                while len(lines) + len(add) < target:
                    add += lines
                add = add[:target - len(lines)]
                with open(lp, "wb") as f:
                    f.write(raw.split(b"\n")[0] + b"\n" + b"\n".join(add + lines) + b"\n")
                labels.add('dead_with_log_due_for_recompaction')
        else:
            labels.add('dead_plain')
        before, _ = sim.scan_dir()
        p1 = subprocess.run([sim.ninja] + (["-n"] if dry else []) + ["-t", "cleandead"], cwd=sim.dir, env=env, capture_output=True, timeout=60)
        out = (p1.stdout + p1.stderr).decode('utf-8', 'replace')
        after, _ = sim.scan_dir()
        detail = dict(prep=prep, dry=dry, removed_statements=[key(v) for v in victims], output=out[-300:], manifest=graphs.manifest(g)[-500:])
        if p1.returncode != 0:
            return dict(kind='[real binary] -t cleandead failed', detail=detail), labels
        got = set(before) - set(after)
        sc = dead_scope(g, log_before, before)
        want = set(p for p in sc if p in before)
        if victims:
            labels.add('statement_removed')
        if dry:
            labels.add('mode_dead_n')
            if got:
                return dict(kind='[real binary] dry-run cleandead removed files', detail=dict(detail, removed=sorted(got))), labels
            return None, labels
        srcs = set(g['srcs'])
        if got & srcs:
            return dict(kind='[real binary] cleandead removed a source file', detail=dict(detail, removed=sorted(got & srcs))), labels
        if got - sc:
            return dict(kind='[real binary] cleandead removed files outside its scope', detail=dict(detail, extra=sorted(got - sc), scope=sorted(sc))), labels
        if want - got:
            return dict(kind='[real binary] cleandead left files of removed statements behind', detail=dict(detail, left=sorted(want - got))), labels
        if want:
            labels.add('removed_something')
        return None, labels
    finally:
        sim.close()


def e2e_worker(widx, n_examples):
    res = common.Result()
    state = {}
    budget = common.ShrinkBudget()
    root = common.scratch_root()
    import shutil
    try:
        feats = dict(unordered_hidden=False, dyndep=False, deps=False, hidden_generated=False, rsp=False, pools=False, validations=False)

        @hseed(common.sub_seed(PROP, 'e2e', widx))
        @settings(max_examples=n_examples, deadline=None, database=None, suppress_health_check=list(HealthCheck),
                  phases=[Phase.generate, Phase.shrink], verbosity=Verbosity.quiet, report_multiple_bugs=False)
        @given(graphs.graphs(max_edges=6, features=feats), st.lists(st.integers(0, 40), min_size=1, max_size=2),
               st.sampled_from(['none', 'recompact', 'bloat', 'bloat']), st.sampled_from([False, False, False, True]))
        def test(g, sel, prep, dry):
            case = dict(e2e_dead=True, g=g, sel=sel, prep=prep, dry=dry)
            dg = common.digest(case)
            if budget.skip(dg):
                return
            f, labels = e2e_dead_case(root, g, sel, prep, dry)
            res.case(case, 'removed_something' in labels and ('dead_after_explicit_recompact' in labels or 'dead_with_log_due_for_recompaction' in labels),
                     ['h:' + l for l in labels], sample=dict(manifest=graphs.manifest(g)[-300:], sel=sel, prep=prep) if 'removed_something' in labels else None)
            if f:
                state['fail'] = (case, "%s %s" % (f['kind'], json.dumps(f['detail'], default=repr)[:1000]))
                budget.failed(dg)
                raise AssertionError()
        common.run_hypothesis(test, state, res)
    finally:
        shutil.rmtree(root, ignore_errors=True)
    return res


SPEC = st.fixed_dictionaries(dict(mode=st.sampled_from(['all', 'all', 'targets', 'rules', 'dead', 'dead']), generator=st.booleans(), dry=st.sampled_from([False, False, True]),
                                  sel=st.lists(st.integers(0, 40), min_size=1, max_size=3), perturb=st.lists(st.integers(0, 40), max_size=3)))


def worker(widx, n_examples):
    res = common.Result()
    state = {}
    budget = common.ShrinkBudget()
    with Probe("fast") as pf, Probe("san") as ps:
        feats = dict(unordered_hidden=False, dyndep='some', restat=False, hidden_generated=False) if widx % 2 else dict(unordered_hidden=False, dyndep='some', deps=False)
        @hseed(common.sub_seed(PROP, widx))
        @settings(max_examples=n_examples, deadline=None, database=None, suppress_health_check=list(HealthCheck),
                  phases=[Phase.generate, Phase.shrink], verbosity=Verbosity.quiet, report_multiple_bugs=False)
        @given(graphs.graphs(max_edges=7, features=feats), graphs.histories(max_ops=4, with_failures=True), SPEC)
        def test(g, ops, spec):
            case = dict(g=g, ops=ops, spec=spec)
            dg = common.digest(case)
            if budget.skip(dg):
                return
            f, labels = run_case(ps if int(dg, 16) % 6 == 0 else pf, g, ops, spec)
            nt = 'removed_something' in labels or (spec['dry'] and bool(labels))
            res.case(case, nt, ['h:' + l for l in labels], sample=dict(spec=spec, manifest=graphs.manifest(g)[-400:]) if nt else None)
            if f:
                state['fail'] = (case, "%s %s" % (f['kind'], json.dumps(f['detail'], default=repr)[:1200]))
                budget.failed(dg)
                raise AssertionError()
        common.run_hypothesis(test, state, res)
    return res


def replay_case(case):
    if case.get('e2e_dead'):
        import shutil
        root = common.scratch_root()
        try:
            f, _ = e2e_dead_case(root, copy.deepcopy(case['g']), case['sel'], case['prep'], case['dry'])
        finally:
            shutil.rmtree(root, ignore_errors=True)
        return f['kind'] if f else None
    with Probe("san") as p:
        f, _ = run_case(p, copy.deepcopy(case['g']), copy.deepcopy(case['ops']), case['spec'])
    return f['kind'] if f else None


def run(tier):
    ck = common.Check(PROP, tier, "exploration",
                      "generated graph (<=7 statements: multi-output, implicit outputs, phony, generator, depfiles, rspfiles kept by failed commands, dyndep "
                      "outputs) x short history incl. failing builds x tree perturbation (up to 3 ninja-made files deleted, two stray files added) x one "
                      "clean scope: all / all -g / target set / rule set / cleandead after 1-2 statements were removed (their outputs stay on disk and in "
                      "the log, possibly still consumed by others), each with and without -n. Oracle: removed files == existing files of the scope as "
                      "defined by the property; sources, phony names and stray files never; dry run removes nothing and counts the same set; the build "
                      "after a clean reproduces the clean-build tree and converges. Real-binary part: build, remove 1-2 statements from the manifest, then "
                      "`ninja -t cleandead` directly / after `-t recompact` / with a log that is due for recompaction, same dead-scope model. "
                      "Non-trivial = something was in scope and existed.",
                      simprops.ASSUME + ["-g is asserted for the default scope only (the manual defines it there)",
                                         "cleandead treats a path known only through the deps log as not in the graph, as the code comment documents"])
    n = 60000 if tier == 'thorough' else 6000
    r = common.run_workers(worker, [(w, max(1, n // common.NCPU)) for w in range(common.NCPU)])
    ck.merge(r)
    # the real binary: -t cleandead through ninja.cc (log opening, recompaction predicate), graphs without deps/dyndep
    r2 = common.run_workers(e2e_worker, [(w, (300 if tier == 'thorough' else 18)) for w in range(common.NCPU)])
    ck.merge(r2)
    for f in r.failures + r2.failures:
        if f.get('harness_error'):
            continue
        fails = sum(1 for _ in range(3) if replay_case(f['case']))
        if fails == 3:
            ck.violation(f['case'], f['why'])
        else:
            ck.res.notes.append("FLAKY %d/3: %s" % (fails, f['why'][:200]))
    return ck.finish()


def replay(path):
    j = json.load(open(path))
    why = replay_case(j.get('case', j))
    if why:
        print("finding:", why)
        print("VIOLATION property=%s replay=%s" % (PROP, path))
        return 1
    print("replay: no violation")
    return 0
