from . import simprops
PROP = "C05"


def run(tier):
    ck = simprops.run_prop(PROP, tier, n_quick=6000, n_thorough=80000, e2e=(500, 5000), all_schedules=(600, 10000))
    return ck.finish()


def replay(path):
    return simprops.replay(PROP, path)
