"""C15 — depfiles written by compilers are read back as the same file names.
Oracle: encode (GCC mkdeps / Clang DependencyFile quoting, cxx/ref_depfile.h) -> DepfileParser -> same names.
Domain: ALL names up to L over a 16-character special alphabet x 2 encoders x 8 layouts x 3 positions
(enumerator) + structure-aware libFuzzer over name lists with arbitrary bytes."""
import json, os, subprocess
from .. import build, common, fuzz

PROP = "C15"
D11 = "D11_depfile_scanner_splits_at_unlisted_bytes"


def _enum_part(exe, L, nparts, part):
    r = common.Result()
    p = subprocess.run([exe, str(L), str(nparts), str(part)], capture_output=True, text=True, errors="replace",
                       env=dict(os.environ, ASAN_OPTIONS="detect_leaks=0"))
    if p.returncode != 0:
        r.failures.append(dict(why="enumerator died rc=%d: %s" % (p.returncode, p.stderr[-3000:]), case=dict(L=L, part=part, nparts=nparts)))
        return r
    j = json.loads(p.stdout)
    r.evaluations = j["evaluations"]
    for k in ("nontrivial", "excluded_unrepresentable", "d11_names", "d11_fail", "d11_ok"):
        r.extra["enum_" + k] = j[k]
    if j["d11_example"]:
        r.notes.append(j["d11_example"])
    r.samples = j["samples"][:2]
    if j["fail"]:
        r.failures.append(dict(why=j["fail"], case=dict(L=L, part=part, nparts=nparts, fail=j["fail"])))
    return r


def run(tier):
    L = 4 if tier == "thorough" else 3
    ck = common.Check(PROP, tier, "exploration",
                      "enumerator: every name of length 1..%d over {a,space,\\,#,$,:,%%,.,/,~,=,0xC3,(,;,*,TAB} as first/last dependency and as target, "
                      "x {GCC, Clang} quoting x 8 layouts (one line, continuation per name, CRLF, CRLF+continuation, trailing blanks, one rule per "
                      "dependency, -MP phony rules, repeated dependencies), plus the two rejection clauses; libFuzzer: byte-decoded lists of 1-3 targets "
                      "and 0-12 dependencies over arbitrary bytes. Names the dialect cannot carry (NUL/CR/LF, trailing backslash or colon, '\\:') are "
                      "skipped and counted. Non-trivial = name contains one of space \\ # $ : %%; enumerated cases are distinct by construction, fuzz cases "
                      "by hash of the depfile text." % L,
                      ["the known-finding byte class D11 is excluded from the strict campaign by construction and exercised separately",
                       "target names containing both ':' and '\\' are not generated (their escaping is ambiguous in the dialect itself)"])
    exe = build.program("enum_depfile", "san")
    nparts = common.NCPU
    res = common.run_workers(_enum_part, [(exe, L, nparts, i) for i in range(nparts)])
    ck.merge(res)
    fres, viol = fuzz.run_target("fuzz_depfile", runs=(6000000 if tier == "thorough" else 700000), max_len=512, workers=common.NCPU)
    ck.merge(fres)
    for data, why in viol:
        ck.violation(data, why)
    for f in res.failures:
        if not f.get("harness_error"):
            ck.violation(f["case"], f["why"])
    enum_nt = res.extra.get("enum_nontrivial", 0)
    ck.extra_cov.update(exhaustive=not res.failures, enumerated_name_length=L, distinct_nontrivial=enum_nt + len(fres.nontrivial),
                        fuzz_distinct_nontrivial=len(fres.nontrivial))
    # known finding D11: names in the class must still fail (if they stop failing the line is not printed)
    if res.extra.get("enum_d11_fail", 0) > 0 and ck.known.listed(PROP, D11):
        ck.res.known_hits[D11] += res.extra["enum_d11_fail"]
        e = ck.known.listed(PROP, D11)
        ck.known_finding(D11, "%s [%s] (%d of %d enumerated cases with such names are read back wrongly, e.g. %s)" % (
            e["title"], D11, res.extra["enum_d11_fail"], res.extra["enum_d11_fail"] + res.extra.get("enum_d11_ok", 0),
            (res.notes[0] if res.notes else "")[:160]))
    elif res.extra.get("enum_d11_fail", 0) > 0:
        ck.violation(dict(d11=res.notes[:3]), "names with bytes outside the scanner's plain-text class are split: " + (res.notes[0] if res.notes else ""))
    return ck.finish()


def replay(path):
    exe = build.program("fuzz_depfile", "fuzz", fuzzer=True)
    if path.endswith(".json"):
        j = json.load(open(path))
        print("enumerator case:", j)
        c = j["case"]
        if "L" not in c:
            return 0
        e = build.program("enum_depfile", "san")
        p = subprocess.run([e, str(c["L"]), str(c["nparts"]), str(c["part"])], capture_output=True, text=True, errors="replace")
        if json.loads(p.stdout)["fail"]:
            print("VIOLATION property=%s replay=%s" % (PROP, path))
            return 1
        return 0
    p = subprocess.run([exe, path], env=dict(os.environ, ASAN_OPTIONS="detect_leaks=0"))
    if p.returncode != 0:
        print("VIOLATION property=%s replay=%s" % (PROP, path))
        return 1
    return 0
