"""C08 — the build log survives torn writes, restarts and compaction.
Stateful histories over sessions of a real BuildLog on a real file (probe kind 'buildlog'), every truncation
offset of the resulting file, continuations after the tear; oracle = M-buildlog (fold over the complete lines of
the same bytes) + safety rule for damaged/merged lines + recompaction/restat/version clauses."""
import json, os, traceback
from hypothesis import given, settings, seed as hseed, HealthCheck, Phase, Verbosity, strategies as st
from .. import common
from ..probe import Probe, ProbeDied

PROP = "C08"
HEADER = b"# ninja log v7\n"


def hx(b):
    return b.hex()


NAME_ALPHA = [b"a", b"b", b"o", b".", b"/", b" ", b"1", b"0", b"-", b"#", b"\xc3\xa9", b"\xff", b"\r", b"x" * 7]


@st.composite
def names(draw):
    k = draw(st.integers(0, 9))
    if k == 0:
        return b"%d" % draw(st.integers(0, 99999))           # numeric-looking
    parts = draw(st.lists(st.sampled_from(NAME_ALPHA), min_size=1, max_size=6))
    n = b"".join(parts)
    return n if n.strip() else b"o" + n


@st.composite
def histories(draw, big):
    nnames = draw(st.integers(1, 6))
    pool = draw(st.lists(names(), min_size=nnames, max_size=nnames, unique=True))
    # large logs: record lines of 1-4 KB, enough of them to pass 256 KiB (the reader refills its buffer there and has to
    # carry a partial line over); the lengths differ so that the boundary falls at varying places inside a line
    long_ = draw(st.integers(0, 3 if big else 9)) == 0
    if long_:
        pool = [n + b"L" * draw(st.integers(700, 3500)) for n in pool]
    ops = []
    nsess = draw(st.integers(1, 4))
    for s in range(nsess):
        dead = draw(st.lists(st.integers(0, nnames - 1), max_size=2, unique=True))
        ops.append(dict(op='open', dead=dead))
        if long_ and s == 0:
            per = sum(len(n) + 60 for n in pool)
            ops.append(dict(op='record', outs=list(range(nnames)), cmd=0, start=1, end=2, mtime=draw(st.integers(1, 10 ** 9)),
                            rep=max(2, (draw(st.integers(270000, 560000)) + per - 1) // per)))
        for _ in range(draw(st.integers(0, 6))):
            k = draw(st.integers(0, 9))
            if k <= 6:
                outs = draw(st.lists(st.integers(0, nnames - 1), min_size=1, max_size=3, unique=True))
                rep = draw(st.sampled_from([1, 1, 1, 2, 40, 130])) if big or draw(st.integers(0, 5)) == 5 else 1
                ops.append(dict(op='record', outs=outs, cmd=draw(st.integers(0, 3)), start=draw(st.integers(0, 1000)),
                                end=draw(st.integers(0, 2000)), mtime=draw(st.integers(1, 10 ** 12)), rep=rep))
            elif k == 7:
                ops.append(dict(op='restat', outs=draw(st.lists(st.integers(0, nnames - 1), max_size=2, unique=True)),
                                mtimes=draw(st.lists(st.integers(0, 10 ** 6), min_size=nnames, max_size=nnames))))
            elif k == 8:
                ops.append(dict(op='recompact', dead=draw(st.lists(st.integers(0, nnames - 1), max_size=2, unique=True))))
            else:
                ops.append(dict(op='check'))
        ops.append(dict(op='close'))
        t = draw(st.integers(0, 5))
        if t == 0:
            ops.append(dict(op='scan'))                                 # every truncation offset, pure loads
        elif t <= 3:
            ops.append(dict(op='tear', back=draw(st.integers(1, 60))))  # cut `back` bytes off the end, continue
        if draw(st.integers(0, 9)) == 9:
            ops.append(dict(op='version', v=draw(st.sampled_from([b"# ninja log v5\n", b"# ninja log v6\n", b"# ninja log v8\n",
                                                                   b"# ninja log v4\n", b"garbage\n", b"# ninja log v70\n"]))))
    ops.append(dict(op='check'))
    return dict(names=pool, ops=ops)


def c_atoi(b, longlong=False):
    """what atoi/strtoll do: skip white space, optional sign, digits"""
    i = 0
    while i < len(b) and b[i:i + 1] in b" \t\n\v\f\r":
        i += 1
    sign = 1
    if i < len(b) and b[i:i + 1] in b"+-":
        sign = -1 if b[i:i + 1] == b"-" else 1
        i += 1
    j = i
    while j < len(b) and b[j:j + 1].isdigit():
        j += 1
    return sign * int(b[i:j]) if j > i else 0


def model_load(raw, written):
    """M-buildlog: (status, entries, last_line_kind) from the bytes. status: 'ok' | 'discard' | 'missing'.
    entries: name -> dict(kind='intact'|'damaged', line=bytes, fields if intact)"""
    if raw is None:
        return 'missing', {}
    if not raw:
        return 'ok', {}
    first_nl = raw.find(b"\n")
    first = raw if first_nl < 0 else raw[:first_nl + 1]
    if first != HEADER:
        # anything but the exact current signature: "# ninja log v%d" with another number, or unparsable
        return 'discard', {}
    entries = {}
    lines = raw.split(b"\n")
    complete = lines[:-1]           # the piece after the last newline is a torn line
    for ln in complete[1:]:
        f = ln.split(b"\t")
        if len(f) < 5:
            continue
        name = f[3]
        if ln + b"\n" in written:
            entries[name] = dict(kind='intact', line=ln)
        else:
            entries[name] = dict(kind='damaged', line=ln)
    return 'ok', entries


class Violation(Exception):
    def __init__(self, why):
        Exception.__init__(self, why)
        self.why = why


def fmt_line(start, end, mtime, name, hash_hex):
    return b"%d\t%d\t%d\t%s\t%x\n" % (start, end, mtime, name, int(hash_hex, 16))


def check_loaded(where, raw, loaded, load_status, warn, written, truth, long_ok=(), latest=False):
    """loaded: {hexname: {hash, mtime, start, end}} as ninja loaded it from bytes `raw`.
    latest: the file is the real one (not a truncated copy), so truth[name] - the last record completely written for
    name and not cut off since - must be what rules: an *older* genuine record in its place would make the output look up
    to date to the command that wrote that older record."""
    status, exp = model_load(raw, written)
    if load_status == 0:
        raise Violation("%s: load reported LOAD_ERROR on a torn/damaged log (%r)" % (where, warn))
    if status == 'discard':
        if loaded:
            raise Violation("%s: log with unsupported header yielded entries" % where)
        return
    got = {bytes.fromhex(k): v for k, v in loaded.items()}
    for name, e in exp.items():
        if len(e['line']) >= (256 << 10) - 1:
            continue     # documented: a line longer than the read buffer may be dropped (safe direction)
        if name not in got:
            raise Violation("%s: complete record for %r was not loaded" % (where, name))
        g = got[name]
        if e['kind'] == 'intact':
            f = e['line'].split(b"\t")
            want = dict(start=int(f[0]), end=int(f[1]), mtime=int(f[2]), hash="%016x" % int(f[4], 16))
            have = dict(start=g['start'], end=g['end'], mtime=g['mtime'], hash=g['hash'])
            if want != have:
                raise Violation("%s: record for %r loaded as %r, file says %r (last record must win)" % (where, name, have, want))
        else:
            # damaged / merged line came last for this output: it may only look out of date
            # (a merged line whose tail is a complete genuine record - only the start/end fields absorbed the torn bytes -
            # carries exactly that record's mtime and hash, which is fine)
            same_hash = [m for (h_, m) in truth.get(('history', name), []) if h_ == g['hash']]
            if same_hash and g['mtime'] > max(same_hash):
                raise Violation("%s: damaged line makes %r look newer than it ever was with a genuine command hash: loaded %r, genuine records with that hash have mtimes %r"
                                % (where, name, g, sorted(set(same_hash))))
    for name in got:
        if name not in exp:
            raise Violation("%s: entry for %r loaded but no complete line names it" % (where, name))
    if latest and status == 'ok':
        for name, t in truth.items():
            if isinstance(name, tuple) or name not in got or len(name) > (250 << 10):
                continue
            g = got[name]
            if (g['hash'], g['mtime']) not in ((t['hash'], t['mtime']), t.get('alt')) and (g['hash'], g['mtime']) in truth.get(('history', name), []):
                raise Violation("%s: the record completely written last for %r (hash %s, mtime %d) is not the one that rules after loading: an older "
                                "record (hash %s, mtime %d) does, so the output can look up to date although its last build used another command"
                                % (where, name, t['hash'], t['mtime'], g['hash'], g['mtime']))


def translate(h):
    """history -> flat list of probe ops (one request = one process = the BuildLog object lives across a session)"""
    names = h['names']
    P = []
    is_open = False
    for i, op in enumerate(h['ops']):
        k = op['op']
        t = dict(tag=i)
        if k == 'open':
            P += [dict(op='raw', **t), dict(op='open', dead=[hx(names[x]) for x in op['dead']], **t), dict(op='raw', **t), dict(op='load_dump', **t)]
            is_open = True
        elif k == 'record' and is_open:
            for _ in range(op['rep']):
                P.append(dict(op='record', outs=[hx(names[x]) for x in op['outs']], cmd=hx(b"cmd%d" % op['cmd']),
                              start=op['start'], end=op['end'], mtime=op['mtime'], **t))
        elif k == 'check':
            P += [dict(op='raw', **t), dict(op='load_dump', **t)]
        elif k == 'close':
            P.append(dict(op='close', **t))
            is_open = False
        elif k == 'recompact' and is_open:
            P += [dict(op='raw', **t), dict(op='load_dump', **t), dict(op='dump', **t), dict(op='recompact', dead=[hx(names[x]) for x in op['dead']], **t),
                  dict(op='raw', **t), dict(op='load_dump', **t), dict(op='close', **t), dict(op='open', dead=[], **t)]
        elif k == 'restat' and is_open:
            mt = {hx(names[x]): op['mtimes'][x] for x in range(len(names)) if op['mtimes'][x] > 0}
            P += [dict(op='raw', **t), dict(op='load_dump', **t), dict(op='dump', **t), dict(op='restat', outs=[hx(names[x]) for x in op['outs']], mtimes=mt, **t),
                  dict(op='raw', **t), dict(op='load_dump', **t), dict(op='close', **t), dict(op='open', dead=[], **t)]
        elif k == 'scan' and not is_open:
            P += [dict(op='raw', **t), dict(op='tear_scan', **t)]
        elif k == 'tear' and not is_open:
            P += [dict(op='raw', **t), dict(op='truncate_back', back=op['back'], **t), dict(op='raw', **t), dict(op='load_dump', **t)]
        elif k == 'version' and not is_open:
            P += [dict(op='set_raw', bytes=hx(op['v'] + b"1\t2\t3\tout\tabc\n"), **t), dict(op='load_dump', **t)]
    return P


def run_history(probe, h):
    """returns dict(nontrivial=bool, labels=set). raises Violation."""
    names = h['names']
    d = probe.newdir()
    labels = set()
    try:
        P = translate(h)
        R = probe.request(dict(kind='buildlog', dir=d, ops=P), timeout_ms=120000)['results']
        it = iter(zip(P, R))
        written = set()         # every line ninja was asked to write (intact lines)
        truth = {}              # name -> dict(hash, mtime): what a build would compare against
        tore_inside = False
        appended_after_tear = False
        scans = 0

        def nxt(kind):
            p, r = next(it)
            assert p['op'] == kind and r['op'] == kind, (p['op'], kind)
            return p, r

        def rawbytes(r):
            return bytes.fromhex(r['bytes']) if r.get('exists', True) else None

        def load_check(where, latest=True):
            _, rr = nxt('raw')
            _, rl = nxt('load_dump')
            b = bytes.fromhex(rr['bytes'])
            check_loaded(where, b if (b or rl['exists']) else None, rl['entries'], rl['load'], rl['warn'], written, truth, latest=latest)
            return b, rl

        is_open = False
        for op in h['ops']:
            k = op['op']
            if k == 'open':
                _, rr = nxt('raw')
                before = bytes.fromhex(rr['bytes'])
                _, r = nxt('open')
                if r['load'] == 0:
                    raise Violation("open: LOAD_ERROR %r" % r['warn'])
                check_loaded('open', before, r['entries'], r['load'], r['warn'], written, truth, latest=True)
                if not r.get('open_ok', True):
                    raise Violation("open: OpenForWrite failed: %r" % r.get('open_err'))
                is_open = True
                status, exp = model_load(before, written)
                dead = set(names[i] for i in op['dead'])
                _, after = load_check('after open')
                got = {bytes.fromhex(x) for x in after['entries']}
                for n, e in exp.items():
                    if e['kind'] == 'intact' and n not in dead and n not in got and len(e['line']) < (256 << 10) - 1:
                        raise Violation("open (automatic recompaction) lost the record of live output %r" % n)
                if any(n in dead and n not in got for n in exp):
                    labels.add('auto_recompaction_dropped_dead')
                for n in dead:
                    if n not in got:
                        truth.pop(n, None)
            elif k == 'record' and is_open:
                for _ in range(op['rep']):
                    p, r = nxt('record')
                    if not r['ok']:
                        raise Violation("record failed")
                    for i in op['outs']:
                        o = names[i]
                        written.add(fmt_line(op['start'], op['end'], op['mtime'], o, r['hash']))
                        truth[o] = dict(hash=r['hash'], mtime=op['mtime'])
                        truth.setdefault(('history', o), []).append((r['hash'], op['mtime']))
                    if tore_inside:
                        appended_after_tear = True
                if op['rep'] >= 40:
                    labels.add('many_records')
            elif k == 'check':
                load_check('check')
            elif k == 'close':
                nxt('close')
                is_open = False
            elif k == 'recompact' and is_open:
                _, before_disk = load_check('before recompact')
                _, before = nxt('dump')      # the session's own (latest) knowledge is what recompaction must preserve
                dead = set(names[i] for i in op['dead'])
                _, r = nxt('recompact')
                if not r['ok']:
                    raise Violation("recompact failed: %r" % r['err'])
                for n in dead:
                    truth.pop(n, None)
                _, after = load_check('after recompact')
                b_ent = {bytes.fromhex(x): v for x, v in before['entries'].items()}
                a_ent = {bytes.fromhex(x): v for x, v in after['entries'].items()}
                for n, v in b_ent.items():
                    if n in dead:
                        if n in a_ent:
                            raise Violation("recompaction kept dead output %r" % n)
                    elif a_ent.get(n) != v:
                        raise Violation("recompaction changed/lost live output %r: %r -> %r" % (n, v, a_ent.get(n)))
                for n in a_ent:
                    if n not in b_ent:
                        raise Violation("recompaction invented %r" % n)
                labels.add('recompact')
                nxt('close')
                nxt('open')
            elif k == 'restat' and is_open:
                _, before_disk = load_check('before restat')
                _, before = nxt('dump')
                sel = [names[i] for i in op['outs']]
                mt = {names[i]: op['mtimes'][i] for i in range(len(names)) if op['mtimes'][i] > 0}
                _, r = nxt('restat')
                _, rr = nxt('raw')
                _, rl = nxt('load_dump')
                if not before_disk['exists']:
                    # nothing was ever recorded: `ninja -t restat` returns before calling Restat in that case
                    nxt('close')
                    nxt('open')
                    continue
                if not r['ok']:
                    raise Violation("restat failed: %r" % r['err'])
                b_ent = {bytes.fromhex(x): v for x, v in before['entries'].items()}
                a_ent = {bytes.fromhex(x): v for x, v in rl['entries'].items()}
                if set(b_ent) != set(a_ent):
                    raise Violation("restat changed the set of outputs: %r -> %r" % (sorted(b_ent), sorted(a_ent)))
                for n, v in b_ent.items():
                    a = a_ent[n]
                    if (a['hash'], a['start'], a['end']) != (v['hash'], v['start'], v['end']):
                        raise Violation("restat changed more than the mtime of %r: %r -> %r" % (n, v, a))
                    if not sel or n in sel:
                        want = mt.get(n, 0)
                        if a['mtime'] != want:
                            raise Violation("restat of %r recorded mtime %d, disk says %d" % (n, a['mtime'], want))
                    elif a['mtime'] != v['mtime']:
                        raise Violation("restat of %r changed the mtime of %r, which was not selected" % (sel, n))
                # restat rewrote the file: its lines are legitimate lines from now on
                b = bytes.fromhex(rr['bytes'])
                for ln in b.split(b"\n")[1:-1]:
                    written.add(ln + b"\n")
                    f = ln.split(b"\t")
                    if len(f) >= 5 and f[3] in truth:
                        truth[f[3]] = dict(hash="%016x" % int(f[4], 16), mtime=int(f[2]))
                        truth.setdefault(('history', f[3]), []).append(("%016x" % int(f[4], 16), int(f[2])))
                labels.add('restat_subset' if sel else 'restat_all')
                nxt('close')
                nxt('open')
            elif k == 'scan' and not is_open:
                _, rr = nxt('raw')
                b = bytes.fromhex(rr['bytes'])
                _, r = nxt('tear_scan')
                from .C09 import expand_same
                expand_same(r['scans'], ('entries',))
                for sc in r['scans']:
                    check_loaded('tear at %d of %d' % (sc['n'], len(b)), b[:sc['n']], sc['entries'], sc['load'], sc['warn'], written, truth)
                labels.add('tear_scan')
                scans += len(r['scans'])
            elif k == 'tear' and not is_open:
                _, rr = nxt('raw')
                b = bytes.fromhex(rr['bytes'])
                _, rt = nxt('truncate_back')
                n = rt['n']
                if n > len(HEADER) and n < len(b) and b[n - 1:n] != b"\n":
                    tore_inside = True
                    labels.add('tear_inside_record')
                # what was cut off was never (completely) written as far as any later load can tell
                _st, surv = model_load(b[:n], written)
                for nm in [x for x in truth if not isinstance(x, tuple)]:
                    e_ = surv.get(nm)
                    if e_ is not None and e_['kind'] == 'intact':
                        f_ = e_['line'].split(b"\t")
                        truth[nm] = dict(hash="%016x" % int(f_[4], 16), mtime=int(f_[2]))
                    else:
                        del truth[nm]
                # a tear that took only the final newline leaves a record that is complete but for its terminator: once a
                # later session terminates the line it is a genuine record again - either reading is the latest one
                tail = b[:n].rsplit(b"\n", 1)[-1]
                if tail + b"\n" in written:
                    f_ = tail.split(b"\t")
                    alt = dict(hash="%016x" % int(f_[4], 16), mtime=int(f_[2]))
                    truth.setdefault(f_[3], dict(alt)).update(alt=(alt['hash'], alt['mtime']))
                load_check('after tear')
            elif k == 'version' and not is_open:
                nxt('set_raw')
                _, r = nxt('load_dump')
                if r['load'] == 0:
                    raise Violation("unsupported version %r gave LOAD_ERROR" % op['v'])
                if r['entries']:
                    raise Violation("unsupported version %r yielded entries" % op['v'])
                if r['load'] != 2 or not r['warn'] or r['copy_exists_after']:
                    raise Violation("unsupported version %r: expected discard with a warning and the file removed, got load=%r warn=%r exists=%r"
                                    % (op['v'], r['load'], r['warn'], r['copy_exists_after']))
                written.clear()
                truth.clear()
                labels.add('unsupported_version')
        h['_scan_offsets'] = scans
        return dict(nontrivial=tore_inside and appended_after_tear, labels=labels)
    finally:
        probe.rmdir(d)


class Falsified(Exception):
    pass


def worker(widx, n_examples, big):
    res = common.Result()
    state = {}
    budget = common.ShrinkBudget()
    with Probe("fast") as pf, Probe("san") as ps:
        @hseed(common.sub_seed(PROP, widx))
        @settings(max_examples=n_examples, deadline=None, database=None, suppress_health_check=list(HealthCheck),
                  phases=[Phase.generate, Phase.shrink], verbosity=Verbosity.quiet, report_multiple_bugs=False)
        @given(histories(big))
        def test(h):
            case = dict(names=[hx(n) for n in h['names']], ops=h['ops'])
            probe = ps if int(common.digest(case), 16) % 4 == 0 else pf
            dg = common.digest(case)
            if budget.skip(dg):
                return
            try:
                r = run_history(probe, h)
            except Violation as v:
                state['fail'] = (case, v.why)
                budget.failed(dg)
                raise Falsified()
            except ProbeDied as dd:
                state['fail'] = (case, "ninja crashed/exited/hung while handling the log: " + dd.describe())
                budget.failed(dg)
                raise Falsified()
            res.case(case, r['nontrivial'], ['h:' + l for l in r['labels']],
                     sample=dict(names=[repr(n) for n in h['names']], ops=[_printable(o) for o in h['ops'][:8]]) if r['nontrivial'] else None)
            res.extra['tear_offsets_checked'] += h.get('_scan_offsets', 0)
        common.run_hypothesis(test, state, res)
    return res


def _printable(o):
    return {k: (v.decode('latin-1') if isinstance(v, bytes) else v) for k, v in o.items()}


def decode_case(case):
    ops = []
    for o in case['ops']:
        o = dict(o)
        if 'v' in o and isinstance(o['v'], str):
            o['v'] = o['v'].encode('latin-1')
        ops.append(o)
    return dict(names=[bytes.fromhex(n) for n in case['names']], ops=ops)


# ---------------------------------------------------------------------------------------------- real binary: who is still alive
def parse_log_file(path):
    recs = {}
    try:
        raw = open(path, "rb").read()
    except FileNotFoundError:
        return None, 0
    lines = raw.split(b"\n")
    n = 0
    for l in lines[1:]:
        f = l.split(b"\t")
        if len(f) == 5:
            n += 1
            recs[f[3]] = (f[2], f[4])        # last record wins
    return recs, n


def real_recompact_case(root, n, removed, deleted, prep, depsmode, renamed):
    """The liveness test used by the real binary's recompaction (ninja.cc, reached by no in-process part): n statements are
    built, some are then removed from the manifest (their outputs stay on disk unless also deleted), one may be renamed;
    the log is recompacted by `-t recompact`, or padded to the threshold so that the next ordinary invocation recompacts
    it. Afterwards the log must still hold, unchanged, the latest record of every output that is in the manifest or on disk."""
    import subprocess, shutil as _sh
    from .. import build
    ninja = build.ninja_binary("rel")
    d = os.path.join(root, "rr%d" % os.getpid())
    _sh.rmtree(d, ignore_errors=True)
    os.makedirs(os.path.join(d, "sub"))
    env = dict(os.environ, TERM="dumb")
    env.pop("MAKEFLAGS", None)
    env.pop("NINJA_STATUS", None)

    def manifest(keep, names):
        L = ["rule cp\n  command = cp $in $out\n"]
        if depsmode:
            L.append("rule cpd\n  command = cp $in $out && printf '%s: %s\\n' $out hdr > $out.d\n  depfile = $out.d\n  deps = gcc\n")
        for i in keep:
            L.append("build %s: %s src\n" % (names[i], "cpd" if (depsmode and i % 2 == 0) else "cp"))
        return "".join(L)

    names = [("sub/o%d" % i) if i % 3 == 2 else ("o%d" % i) for i in range(n)]
    open(os.path.join(d, "src"), "w").write("x")
    open(os.path.join(d, "hdr"), "w").write("h")
    open(os.path.join(d, "build.ninja"), "w").write(manifest(range(n), names))
    p0 = subprocess.run([ninja], cwd=d, env=env, capture_output=True, timeout=60)
    if p0.returncode != 0:
        return dict(kind="setup build failed", detail=dict(out=(p0.stdout + p0.stderr).decode('utf-8', 'replace')[-300:])), set()
    lp = os.path.join(d, ".ninja_log")
    before, _ = parse_log_file(lp)
    labels = set()
    keep = [i for i in range(n) if i not in removed]
    names2 = list(names)
    if renamed is not None and renamed % n in keep:
        names2[renamed % n] = "renamed_" + names[renamed % n].replace("/", "_")     # the old output stays on disk, unknown to the graph
        labels.add('statement_renamed')
    open(os.path.join(d, "build.ninja"), "w").write(manifest(keep, names2))
    for i in deleted:
        if i < n:
            try:
                os.unlink(os.path.join(d, names[i]))
            except FileNotFoundError:
                pass
    # (the invocation that recompacts must have nothing to build: a target that is unchanged and still there)
    quiet = [i for i in keep if names2[i] == names[i] and i not in deleted]
    if prep == 'bloat' and not quiet:
        prep = 'recompact'
    if prep == 'bloat':
        raw = open(lp, "rb").read()
        lines = [l for l in raw.split(b"\n")[1:] if l.count(b"\t") == 4]
        target = max(100, 3 * len(set(l.split(b"\t")[3] for l in lines))) + 5
        add = []
        while len(lines) + len(add) < target:
            add += lines
        add = add[:target - len(lines)]
        with open(lp, "wb") as f:
            f.write(raw.split(b"\n")[0] + b"\n" + b"\n".join(add + lines) + b"\n")
        # any invocation that opens the log for writing recompacts it now; a no-op build of what is left does
        p1 = subprocess.run([ninja, names[quiet[0]]], cwd=d, env=env, capture_output=True, timeout=60)
        labels.add('automatic_recompaction')
    else:
        p1 = subprocess.run([ninja, "-t", "recompact"], cwd=d, env=env, capture_output=True, timeout=60)
        labels.add('explicit_recompaction')
    detail = dict(n=n, removed=sorted(removed), deleted=sorted(deleted), prep=prep, depsmode=depsmode, renamed=renamed, output=(p1.stdout + p1.stderr).decode('utf-8', 'replace')[-300:])
    after, nlines = parse_log_file(lp)
    if after is None:
        return dict(kind="[real binary] the log is gone after recompaction", detail=detail), labels
    if prep == 'bloat' and nlines >= 100:
        return dict(kind="[real binary] log past the threshold was not recompacted (%d lines)" % nlines, detail=detail), labels
    for i in range(n):
        nm = names[i].encode()
        in_manifest = i in keep and names2[i] == names[i]
        on_disk = os.path.exists(os.path.join(d, names[i]))
        if nm not in before:
            continue
        if in_manifest or on_disk:
            if nm not in after:
                return dict(kind="[real binary] recompaction dropped the record of %s (in the manifest: %s, on disk: %s)" % (names[i], in_manifest, on_disk), detail=detail), labels
            if after[nm] != before[nm]:
                return dict(kind="[real binary] recompaction changed the record of %s: %r -> %r" % (names[i], before[nm], after[nm]), detail=detail), labels
            if not in_manifest:
                labels.add('kept_record_of_file_outside_the_manifest')
        elif nm not in after:
            labels.add('dropped_dead_record')
    _sh.rmtree(d, ignore_errors=True)
    return None, labels


def real_worker(widx, n_examples):
    from hypothesis import given, settings, seed as hseed, HealthCheck, Phase, Verbosity, strategies as st
    res = common.Result()
    state = {}
    budget = common.ShrinkBudget()
    root = common.scratch_root()
    try:
        @hseed(common.sub_seed(PROP, 'real', widx))
        @settings(max_examples=n_examples, deadline=None, database=None, suppress_health_check=list(HealthCheck),
                  phases=[Phase.generate, Phase.shrink], verbosity=Verbosity.quiet, report_multiple_bugs=False)
        @given(st.integers(2, 7), st.lists(st.integers(0, 6), max_size=3, unique=True), st.lists(st.integers(0, 6), max_size=3, unique=True),
               st.sampled_from(['bloat', 'recompact']), st.booleans(), st.one_of(st.none(), st.integers(0, 6)))
        def test(n, removed, deleted, prep, depsmode, renamed):
            removed = [i for i in removed if i < n][:n - 1]
            case = dict(kind='real_recompact', n=n, removed=removed, deleted=deleted, prep=prep, depsmode=depsmode, renamed=renamed)
            dg = common.digest(case)
            if budget.skip(dg):
                return
            f, labels = real_recompact_case(root, n, removed, deleted, prep, depsmode, renamed)
            res.case(case, 'kept_record_of_file_outside_the_manifest' in labels or 'dropped_dead_record' in labels, ['real:' + l for l in labels],
                     sample=case if 'kept_record_of_file_outside_the_manifest' in labels else None)
            if f:
                state['fail'] = (case, "%s %s" % (f['kind'], json.dumps(f['detail'], default=repr)[:1000]))
                budget.failed(dg)
                raise AssertionError()
        common.run_hypothesis(test, state, res)
    finally:
        import shutil as _sh
        _sh.rmtree(root, ignore_errors=True)
    return res


def replay_real(case):
    import shutil as _sh
    root = common.scratch_root()
    try:
        f, _ = real_recompact_case(root, case['n'], case['removed'], case['deleted'], case['prep'], case['depsmode'], case['renamed'])
    finally:
        _sh.rmtree(root, ignore_errors=True)
    return f['kind'] if f else None


def run(tier):
    big = tier == 'thorough'
    ck = common.Check(PROP, tier, "fault_enumeration",
                      "stateful histories of BuildLog sessions (open/record/close/restat/recompact, multi-output records, names with spaces, "
                      "high bytes, CR, numeric names) on a real file; tear = every byte offset of the file (all offsets up to 4 KiB, stratified beyond) "
                      "loaded afresh, or a cut inside the tail followed by further sessions; oracle M-buildlog = fold over the complete lines of the same "
                      "bytes, damaged lines may only look out of date. Non-trivial = a tear strictly inside a record followed by a session that appended "
                      ">=1 record; distinct by hash of the history.",
                      ["a line of >= 256 KiB may be dropped by the loader (documented by BuildLogTest.VeryLongInputLine): treated as 'may be absent'",
                       "command hashes are ninja's own HashCommand values; only their preservation is checked"])
    n = 60000 if big else 8000
    res = common.run_workers(worker, [(w, max(1, n // common.NCPU), big) for w in range(common.NCPU)])
    ck.merge(res)
    for f in res.failures:
        if f.get('harness_error'):
            continue
        fails = 0
        with Probe("san") as p:
            for _ in range(3):
                try:
                    run_history(p, decode_case(f['case']))
                except (Violation, ProbeDied):
                    fails += 1
        if fails == 3:
            ck.violation(f['case'], f['why'])
        else:
            ck.res.notes.append("FLAKY %d/3: %s" % (fails, f['why'][:200]))
    rr = common.run_workers(real_worker, [(w, 60 if big else 5) for w in range(common.NCPU)])
    ck.merge(rr)
    for f in rr.failures:
        if f.get('harness_error'):
            continue
        fails = sum(1 for _ in range(3) if replay_real(f['case']))
        if fails == 3:
            ck.violation(f['case'], f['why'])
        else:
            ck.res.notes.append("FLAKY %d/3: %s" % (fails, f['why'][:200]))
    ck.rule += (" Real-binary part: 2-7 statements built by the real binary, some removed from the manifest or renamed, some outputs deleted, then "
                "`-t recompact` or an automatic recompaction (log padded to the threshold): the log must keep, unchanged, the latest record of every "
                "output that is still in the manifest or on disk (the liveness test lives in ninja.cc).")
    return ck.finish()


def replay(path):
    j = json.load(open(path))
    case = j.get('case', j)
    if case.get('kind') == 'real_recompact':
        why = replay_real(case)
        if why:
            print("finding:", why)
            print("VIOLATION property=%s replay=%s" % (PROP, path))
            return 1
        print("replay: no violation")
        return 0
    with Probe("san") as p:
        try:
            run_history(p, decode_case(case))
        except (Violation, ProbeDied) as v:
            print("finding:", getattr(v, 'why', None) or v.describe())
            print("VIOLATION property=%s replay=%s" % (PROP, path))
            return 1
    print("replay: no violation")
    return 0
