"""C07 — interrupting or killing ninja never poisons the next build.
SIM: the last build of a generated history is stopped (a) at each named crash point (guarded NINJA_VERIF_POINT hooks
between the persistence steps of FinishCommand/StartEdge, inside log appends and recompaction) at the 1st..3rd hit,
(b) at any command-runner call boundary, (c) by an interrupt at any wait with running commands that have or have not
modified their outputs; then the next invocation must start normally, succeed, reproduce the clean-build tree and
converge; for interrupts additionally status 130, modified outputs / depfile-statement outputs removed, lock file gone.
E2E: the same with the real binary: SIGINT/SIGTERM/SIGHUP while commands run, SIGKILL of the whole tree, and the hook
crash points via VERIF_CRASH_POINT (incl. -t recompact)."""
import json, os, shutil, signal, subprocess, time, traceback
from hypothesis import given, settings, seed as hseed, HealthCheck, Phase, Verbosity, strategies as st
from .. import common, graphs, models, simrun, e2e
from ..models import key, all_outs
from ..probe import Probe
from . import simprops

from ..e2e import session_pids, kill_session

PROP = "C07"

SPEC = st.one_of(
    st.fixed_dictionaries(dict(mode=st.just('point'), point=st.sampled_from(simrun.POINTS), hit=st.integers(1, 3))),
    st.fixed_dictionaries(dict(mode=st.just('runner'), n=st.integers(0, 12))),
    st.fixed_dictionaries(dict(mode=st.just('interrupt'), n=st.integers(0, 6), touched=st.lists(st.integers(0, 10), max_size=3))),
)


def sim_worker(widx, n_examples):
    res = common.Result()
    known = common.Known()
    state = {}
    budget = common.ShrinkBudget()
    with Probe("fast") as pf, Probe("san") as ps:
        # known finding D1 needs a discovered dependency together with restat pruning or a generated header; recovery builds
        # cannot be attributed by the counterfactual model (its records are unknown after a crash), so the two
        # ingredients are generated in separate halves of the campaign
        feats = dict(unordered_hidden=False, dyndep='some', restat=False, hidden_generated=False) if widx % 2 else \
            dict(unordered_hidden=False, dyndep='some', deps=False)
        @hseed(common.sub_seed(PROP, widx))
        @settings(max_examples=n_examples, deadline=None, database=None, suppress_health_check=list(HealthCheck),
                  phases=[Phase.generate, Phase.shrink], verbosity=Verbosity.quiet, report_multiple_bugs=False)
        @given(graphs.graphs(max_edges=6, features=feats), graphs.histories(max_ops=6, with_failures=False), SPEC)
        def test(g, ops, spec):
            case = dict(g=g, ops=ops, spec=spec)
            dg = common.digest(case)
            if budget.skip(dg):
                return
            sim = simrun.Sim(ps if int(dg, 16) % 6 == 0 else pf, g)
            try:
                simrun.run_crash_history(sim, ops, spec)
            finally:
                sim.close()
            nt = ('crash_between_persistence_steps' in sim.labels or 'crash_with_command_running' in sim.labels or 'interrupted' in sim.labels)
            res.case(case, nt, ['h:' + l for l in sim.labels], sample=dict(spec=spec, manifest=graphs.manifest(g)[-400:]) if nt else None)
            for f in sim.findings:
                if f['prop'] not in (PROP, 'C13'):
                    continue
                if f['known'] and all(known.listed(PROP, s_) for s_ in f['known'].split('+')):
                    for s_ in f['known'].split('+'):
                        res.known_hits[s_] += 1
                    continue
                state['fail'] = (case, "%s %s" % (f['kind'], json.dumps(f['detail'], default=repr)[:1200]))
                budget.failed(dg)
                raise AssertionError()
        common.run_hypothesis(test, state, res)
    return res


# ---------------------------------------------------------------------------------------------- E2E
def e2e_case(root, g, ops, kind, sig, crash_point, hit, delay_ms):
    """kind: 'signal' | 'kill' | 'point' | 'recompact_point'"""
    sim = e2e.RealSim(root, g)
    labels = set()
    try:
        if not sim.establish():
            return None, labels
        for op in sim.expand(ops):
            if sim.stop:
                return None, labels
            if op['op'] == 'build':
                if not op.get('faults'):
                    sim.build(op)
            else:
                sim.apply_change(op)
        if any(f for f in sim.findings):
            return None, labels       # the history itself already shows something (other properties report it)
        cmds = sim.cmd_edges()
        if not cmds:
            return None, labels
        # make everything dirty so that there is work to stop
        for s in sim.g['srcs']:
            if not s.startswith('ddsrc'):
                sim.write(s, sim.new_content(s, 5))
        targets = [key(e) for e in sim.g['edges']]
        detail = dict(kind=kind, signal=sig, point=crash_point, hit=hit)
        if kind == 'recompact_point':
            env = dict(os.environ, VERIF_CRASH_POINT="%s:%d" % (crash_point, 1))
            p = subprocess.run([sim.ninja, "-t", "recompact"], cwd=sim.dir, env=env, capture_output=True, timeout=60)
            labels.add('recompact_crash' if p.returncode == 77 else 'recompact_no_crash')
            what = 'a crash inside -t recompact at %s' % crash_point
        else:
            req = sim.request(targets, j=3, k=1)
            if kind == 'signal' and not sim.vtool.startswith("exec "):
                # the command itself must be ninja's child: dash does not exec the last command of `sh -c`, so a tool that
                # takes time to wind down would be a grandchild, which ninja neither waits for nor can know about
                sim.vtool = "exec " + sim.vtool
            text = graphs.real_manifest(sim.g, sim.vtool)
            regen_first = kind == 'signal' and delay_ms % 3 == 0
            if regen_first:
                # the build starts by regenerating its manifest (0.12 s), so that early signals arrive during that phase
                text += e2e.REGEN_RULE
                open(sim.path("build.ninja"), "w").write(text)
                time.sleep(e2e.GAP)
                open(sim.path("build.ninja.in"), "w").write(text)
                labels.add('manifest_regeneration_first')
            else:
                open(sim.path("build.ninja"), "w").write(text)
            try:
                os.unlink(sim.trace_path)
            except FileNotFoundError:
                pass
            env = dict(os.environ, VERIF_TRACE=sim.trace_path, TERM="dumb",
                       VERIF_SLEEP=",".join("%s:%d" % (key(e), 40 + 25 * (i % 3)) for i, e in enumerate(cmds)))
            env.pop("MAKEFLAGS", None)
            if regen_first:
                env["VERIF_REGEN_SLEEP"] = "0.12"
            if kind == 'point':
                env["VERIF_CRASH_POINT"] = "%s:%d" % (crash_point, hit)
            onsig = []
            if kind == 'signal':
                # every other command behaves like a tool that flushes a partial output when it is told to stop
                onsig = [key(e) for i, e in enumerate(cmds) if (i + delay_ms) % 2 == 0]
                # ... and every other one of those takes 0.3 s to do so
                env["VERIF_ONSIGNAL"] = ",".join("%s:%d" % (k_, 1 + (n_ + delay_ms // 7) % 2) for n_, k_ in enumerate(onsig))
            time.sleep(e2e.GAP)
            p = subprocess.Popen([sim.ninja, "-j", "3"] + targets, cwd=sim.dir, env=env, stdout=subprocess.PIPE, stderr=subprocess.STDOUT, start_new_session=True)
            if kind in ('signal', 'kill'):
                time.sleep(delay_ms / 1000.0)
                if p.poll() is None:
                    if kind == 'kill':
                        os.killpg(p.pid, signal.SIGKILL)       # ninja ...
                        # ... and every command it started: they have process groups of their own but share ninja's
                        # session (a command forked a moment ago has no start record in the trace yet, so the trace is
                        # not enough to find them all - a survivor would rewrite its outputs during the recovery builds)
                        kill_session(p.pid)
                        labels.add('sigkill_tree')
                    else:
                        os.kill(p.pid, sig)
                        labels.add('signal_%d' % sig)
            try:
                out, _ = p.communicate(timeout=60)
            except subprocess.TimeoutExpired:
                os.killpg(p.pid, signal.SIGKILL)
                return dict(kind='ninja did not exit within 60 s after %s' % kind, detail=detail), labels
            rc = p.returncode
            if kind == 'point':
                # ninja died on its own; the commands it had started run to completion like any orphan would
                for _ in range(600):
                    if not session_pids(p.pid):     # they share ninja's session (the trace may not list the youngest yet)
                        break
                    time.sleep(0.01)
            evs = []
            try:
                evs = [json.loads(l) for l in open(sim.trace_path) if l.strip()]
            except (FileNotFoundError, ValueError):
                pass
            started = [e['edge'] for e in evs if e['ev'] == 'start']
            finished = [e['edge'] for e in evs if e['ev'] == 'finish']
            running_at_stop = [s for s in started if s not in finished]
            if running_at_stop:
                labels.add('stopped_with_commands_running')
            if kind == 'signal' and 'signal_%d' % sig in labels and b"interrupted by user" in out and rc != 130:
                return dict(kind='ninja says "interrupted by user" (signal %d) and exits with %d, not 130' % (sig, rc),
                            detail=dict(detail, output=out[-300:].decode('utf-8', 'replace'))), labels
            if regen_first and b"rebuilding 'build.ninja': interrupted" in out:
                labels.add('interrupted_while_regenerating_the_manifest')
            if kind == 'signal' and 'signal_%d' % sig in labels and rc not in (0,):
                labels.add('interrupted')
                if rc != 130 and running_at_stop:
                    return dict(kind='ninja interrupted by signal %d exits with %d, not 130' % (sig, rc), detail=dict(detail, output=out[-300:].decode('utf-8', 'replace'))), labels
                if os.path.exists(sim.path(".ninja_lock")):
                    return dict(kind='lock file left behind after an interrupt', detail=detail), labels
                time.sleep(0.05)
                alive = []
                for e in evs:
                    if e['ev'] == 'start' and e['edge'] in running_at_stop:
                        if pid_alive(e['pid']):
                            alive.append(e['edge'])
                if alive:
                    return dict(kind='commands still alive after ninja exited on an interrupt', detail=dict(detail, alive=alive)), labels
                for rk in running_at_stop:
                    e = sim.edge_by_key(rk)
                    if e and rk in onsig:
                        labels.add('command_wrote_on_signal')
                        try:
                            if open(sim.path(all_outs(e)[0])).read().startswith("partial:"):
                                return dict(kind='output modified by an interrupted command (from its signal handler) was not removed',
                                            detail=dict(detail, output=all_outs(e)[0])), labels
                        except FileNotFoundError:
                            pass
                    if e and models.depfile_path(e):
                        for o in all_outs(e):
                            if os.path.exists(sim.path(o)):
                                return dict(kind='output of an interrupted command with a depfile was not removed', detail=dict(detail, output=o)), labels
            if kind == 'point':
                labels.add('crash_point_hit' if rc == 77 else 'crash_point_not_reached')
            what = {'signal': 'signal %d' % sig, 'kill': 'SIGKILL of the process tree', 'point': 'a crash at %s' % crash_point}[kind]
        # ---- recovery with the real binary
        sim.files, sim.dirs = sim.scan_dir()
        n0 = len(sim.findings)
        simrun.check_recovery(sim, targets, what, detail)
        new = [f for f in sim.findings[n0:] if f['prop'] in (PROP, 'C13')]
        if new:
            return dict(kind=new[0]['kind'], detail=new[0]['detail']), labels
        return None, labels
    finally:
        sim.close()


def _session_pids_old(sid):
    out = []
    for d in os.listdir("/proc"):
        if not d.isdigit():
            continue
        try:
            f = open("/proc/%s/stat" % d).read().rsplit(")", 1)[1].split()
        except (OSError, IndexError):
            continue
        if f[0] != 'Z' and int(f[3]) == sid:
            out.append(int(d))
    return out


def _kill_session_old(sid):
    """SIGKILL every process of the session until none is left (children may fork while we look)"""
    for _ in range(50):
        pids = session_pids(sid)
        if not pids:
            return
        for pid in pids:
            try:
                os.kill(pid, signal.SIGKILL)
            except OSError:
                pass
        time.sleep(0.005)


def pid_alive(pid):
    try:
        st_ = open("/proc/%d/stat" % pid).read().rsplit(")", 1)[1].split()[0]
    except (OSError, IndexError):
        return False
    return st_ != 'Z'


def traced_pids(trace_path):
    """pids of commands that have a start record but no finish record (and are really still running)"""
    started, finished = {}, set()
    try:
        for l in open(trace_path):
            try:
                e = json.loads(l)
            except ValueError:
                continue
            if e['ev'] == 'start':
                started[e['pid']] = e['edge']
            else:
                finished.add(e['pid'])
    except FileNotFoundError:
        pass
    return [p for p in started if p not in finished and pid_alive(p)]


E2E_SPEC = st.one_of(
    st.tuples(st.just('signal'), st.sampled_from([signal.SIGINT, signal.SIGTERM, signal.SIGHUP]), st.just(''), st.just(1), st.integers(5, 160)),
    st.tuples(st.just('kill'), st.just(9), st.just(''), st.just(1), st.integers(5, 160)),
    st.tuples(st.just('point'), st.just(0), st.sampled_from(simrun.POINTS), st.integers(1, 3), st.just(0)),
    st.tuples(st.just('recompact_point'), st.just(0), st.sampled_from(['log.recompact.pre_replace', 'deps.recompact.pre_replace', 'replace.mid']), st.just(1), st.just(0)),
)


def e2e_worker(widx, n_examples):
    res = common.Result()
    state = {}
    budget = common.ShrinkBudget()
    root = common.scratch_root()
    try:
        feats = dict(unordered_hidden=False, restat=False, hidden_generated=False) if widx % 2 else dict(unordered_hidden=False, deps=False)
        @hseed(common.sub_seed(PROP, 'e2e', widx))
        @settings(max_examples=n_examples, deadline=None, database=None, suppress_health_check=list(HealthCheck),
                  phases=[Phase.generate, Phase.shrink], verbosity=Verbosity.quiet, report_multiple_bugs=False)
        @given(graphs.graphs(max_edges=6, features=feats), graphs.histories(max_ops=3, with_failures=False), E2E_SPEC)
        def test(g, ops, spec):
            case = dict(g=g, ops=ops, spec=list(spec), e2e=True)
            dg = common.digest(case)
            if budget.skip(dg):
                return
            f, labels = e2e_case(root, g, ops, *spec)
            nt = bool(labels & {'stopped_with_commands_running', 'crash_point_hit', 'recompact_crash'})
            res.case(case, nt, ['e2e:' + l for l in labels], sample=dict(engine='e2e', spec=list(spec)) if nt else None)
            if f:
                state['fail'] = (case, "[real binary] %s %s" % (f['kind'], json.dumps(f['detail'], default=repr)[:1000]))
                budget.failed(dg)
                raise AssertionError()
        common.run_hypothesis(test, state, res)
    finally:
        shutil.rmtree(root, ignore_errors=True)
    return res


def replay_case(case):
    if case.get('e2e'):
        root = common.scratch_root()
        try:
            f, _ = e2e_case(root, case['g'], case['ops'], *case['spec'])
        finally:
            shutil.rmtree(root, ignore_errors=True)
        return f['kind'] if f else None
    known = common.Known()
    with Probe("san") as p:
        sim = simrun.Sim(p, case['g'])
        try:
            simrun.run_crash_history(sim, case['ops'], case['spec'])
        finally:
            sim.close()
    bad = [f for f in sim.findings if f['prop'] in (PROP, 'C13') and not (f['known'] and known.listed(PROP, f['known']))]
    return bad[0]['kind'] if bad else None


def run(tier):
    thorough = tier == 'thorough'
    ck = common.Check(PROP, tier, "fault_enumeration",
                      "SIM: generated graph (<=6 statements, dyndep in a quarter) x short history; the final build of all targets is stopped at one of 13 named "
                      "crash points (1st-3rd hit), at the n-th command-runner call, or by an interrupt at the n-th wait with a generated subset of the "
                      "running commands having modified their outputs; E2E: real binary, commands slowed to 40-90 ms, SIGINT/SIGTERM/SIGHUP or SIGKILL of the "
                      "whole process group after 5-160 ms, the same crash points through VERIF_CRASH_POINT, and crashes inside `-t recompact`. Then: next "
                      "invocation starts normally, a build succeeds within 3 tries, all outputs equal the clean-build evaluator, a further run starts nothing; "
                      "interrupt contract (130, lock file, modified / depfile outputs removed, no command left alive). Non-trivial = the stop happened with a "
                      "command running or between two persistence steps of a finished command.",
                      simprops.ASSUME + ["commands replace their outputs atomically (vtool writes a temporary file and renames it)",
                                         "power loss (unflushed page cache) is out of reach; torn log writes are covered by C08/C09"])
    r = common.run_workers(sim_worker, [(w, (6000 if thorough else 350)) for w in range(common.NCPU)])
    ck.merge(r)
    r2 = common.run_workers(e2e_worker, [(w, (600 if thorough else 14)) for w in range(common.NCPU)])
    ck.merge(r2)
    for f in r.failures + r2.failures:
        if f.get('harness_error'):
            continue
        fails = sum(1 for _ in range(3) if replay_case(f['case']))
        if fails == 3:
            ck.violation(f['case'], f['why'])
        else:
            ck.res.notes.append("FLAKY %d/3: %s" % (fails, f['why'][:200]))
    for sig, n in list(r.known_hits.items()) + list(r2.known_hits.items()):
        e = ck.known.listed(PROP, sig)
        if e:
            ck.known_finding(sig, "%s [%s] (%d cases)" % (e['title'], sig, n))
    return ck.finish()


def replay(path):
    j = json.load(open(path))
    why = replay_case(j.get('case', j))
    if why:
        print("finding:", why)
        print("VIOLATION property=%s replay=%s" % (PROP, path))
        return 1
    print("replay: no violation")
    return 0
