"""C14 — path canonicalisation identifies exactly the lexically equal paths.
Oracle: M-canon (cxx/ref_canon.h) + laws. Domain: ALL strings over {a,b,.,/} up to L (enumerator, exhaustive),
plus libFuzzer over arbitrary NUL-free bytes and structure-decoded long paths."""
import json, os, subprocess
from .. import build, common, fuzz

PROP = "C14"


def _enum_part(exe, L, nparts, part):
    r = common.Result()
    env = dict(os.environ, ASAN_OPTIONS="detect_leaks=0")
    p = subprocess.run([exe, str(L), str(nparts), str(part)], capture_output=True, text=True, errors="replace", env=env)
    if p.returncode != 0:
        r.failures.append(dict(why="enumerator died rc=%d: %s" % (p.returncode, p.stderr[-2000:]), case=dict(L=L, part=part, nparts=nparts)))
        return r
    j = json.loads(p.stdout)
    r.evaluations = j["evaluations"]
    r.extra["enum_nontrivial"] = j["nontrivial"]
    r.samples = j["samples"][:2]
    if j["fail"]:
        r.failures.append(dict(why=j["fail"], case=dict(input=j["input"])))
    return r


def manifest_worker(widx, nworkers, n):
    """the same spellings where they enter ninja: as explicit / implicit / order-only input, validation, explicit and
    implicit output, default target of a parsed manifest; judged by the manifest reference (C12), whose node identity
    is the reference normal form"""
    import itertools, random, collections
    from ..probe import Probe
    from . import C12
    res = common.Result()
    rnd = random.Random(common.sub_seed(PROP, 'manifest', widx))       # a fixed function of VERIF_SEED
    alpha = [b"a", b"b", b".", b"/"]
    short = [b"".join(t) for L_ in (1, 2, 3, 4) for t in itertools.product(alpha, repeat=L_)]
    with Probe("fast") as probe:
        ninja = C12.make_ninja(probe)
        stats = collections.Counter()
        for i in range(n):
            def spelling():
                if rnd.random() < 0.5:
                    return rnd.choice(short)
                return b"".join(rnd.choice(alpha) for _ in range(rnd.randint(5, 9)))
            sp = [spelling() for _ in range(7)]
            if (i * nworkers + widx) % 3 == 0:
                sp = [b"d/" + x for x in sp]
            text = (b"rule r\n  command = c $in $out\n"
                    b"build " + sp[4] + b" | " + sp[5] + b": r src0\n"
                    b"build out: r " + sp[0] + b" | " + sp[1] + b" || " + sp[2] + b" |@ " + sp[3] + b"\n"
                    b"build out2: r " + sp[6] + b" " + sp[0] + b"\n")
            if rnd.random() < 0.5:
                text += b"default " + sp[4] + b"\n"
            files = {b"build.ninja": text}
            acc0 = stats.get('ref_accept', 0)
            out = C12.check_one(files, ninja, None, stats)
            nt = any(C12.mref.canon(x) != x for x in sp)
            res.case(dict(manifest=text.decode('latin-1')), nt, ['m:' + ('accepted' if stats.get('ref_accept', 0) > acc0 else 'rejected')],
                     sample=dict(manifest=text.decode('latin-1')) if nt else None)
            if out is not None:
                res.failures.append(dict(case=dict(manifest=text.decode('latin-1')), why="manifest level: " + out[0]))
                break
    return res


def run(tier):
    L = 12 if tier == "thorough" else 10
    ck = common.Check(PROP, tier, "exploration",
                      "enumerator: every string over {a,b,.,/} of length 1..%d (exhaustive); libFuzzer: NUL-free byte strings "
                      "and byte-decoded component sequences up to 4 KiB. Non-trivial = canonical form differs from the input "
                      "(enumerated strings are distinct by construction; fuzz inputs are counted by distinct hash)." % L,
                      ["POSIX build: backslash is an ordinary byte, slash_bits must be 0"])
    exe = build.program("enum_canon", "san")
    nparts = common.NCPU
    res = common.run_workers(_enum_part, [(exe, L, nparts, i) for i in range(nparts)])
    enum_nt = res.extra.pop("enum_nontrivial", 0)
    ck.merge(res)
    fres, viol = fuzz.run_target("fuzz_canon", runs=(3000000 if tier == "thorough" else 150000), max_len=4096,
                                 workers=common.NCPU)
    ck.merge(fres)
    mres = common.run_workers(manifest_worker, [(w, common.NCPU, (6000 if tier == "thorough" else 400)) for w in range(common.NCPU)])
    ck.merge(mres)
    ck.extra_cov['manifest_level_cases'] = mres.evaluations
    ck.rule += (" Manifest level: generated build statements with spellings over the same alphabet in every position (explicit, implicit, order-only input, "
                "validation, explicit and implicit output, default) parsed by ninja and compared with the manifest reference, whose node identity is the "
                "reference normal form (two spellings name one file iff their normal forms are equal).")
    for f in mres.failures:
        if not f.get("harness_error"):
            ck.violation(f["case"], f["why"])
    for data, why in viol:
        ck.violation(data, why)
    for f in res.failures:
        if not f.get("harness_error"):
            ck.violation(f["case"], f["why"])
    ck.extra_cov.update(exhaustive=not res.failures, enumerated_length=L, enumerated_nontrivial=enum_nt,
                        fuzz_distinct_nontrivial=len(fres.nontrivial))
    # distinct_nontrivial: enumerated non-trivial strings (distinct by construction) + distinct fuzz hashes
    ck.res.nontrivial |= set("enum:%d" % i for i in range(0))  # (kept symbolic; count added below)
    ck.extra_cov["distinct_nontrivial"] = enum_nt + len(fres.nontrivial)
    return ck.finish()


def replay(path):
    data = open(path, "rb").read()
    if path.endswith(".json") and "manifest" in json.load(open(path)).get("case", {}):
        import collections
        from ..probe import Probe
        from . import C12
        case = json.load(open(path))["case"]
        with Probe("san") as probe:
            out = C12.check_one({b"build.ninja": case["manifest"].encode('latin-1')}, C12.make_ninja(probe), None, collections.Counter())
        if out:
            print("finding:", out[0][:800])
            print("VIOLATION property=%s replay=%s" % (PROP, path))
            return 1
        print("replay: no violation")
        return 0
    if path.endswith(".json"):
        case = json.load(open(path))["case"]
        exe = build.program("enum_canon", "san")
        # single input: run through the fuzz target in raw mode
        data = b"\0" + case["input"].encode("latin-1")
        path = path + ".bin"
        open(path, "wb").write(data)
    exe = build.program("fuzz_canon", "fuzz", fuzzer=True)
    p = subprocess.run([exe, path], env=dict(os.environ, ASAN_OPTIONS="detect_leaks=0"))
    if p.returncode != 0:
        print("VIOLATION property=%s replay=%s" % (PROP, path))
        return 1
    return 0
