"""C14 — path canonicalisation identifies exactly the lexically equal paths.
Oracle: M-canon (cxx/ref_canon.h) + laws. Domain: ALL strings over {a,b,.,/} up to L (enumerator, exhaustive),
plus libFuzzer over arbitrary NUL-free bytes and structure-decoded long paths."""
import json, os, subprocess
from .. import build, common, fuzz

PROP = "C14"


def _enum_part(exe, L, nparts, part):
    r = common.Result()
    env = dict(os.environ, ASAN_OPTIONS="detect_leaks=0")
    p = subprocess.run([exe, str(L), str(nparts), str(part)], capture_output=True, text=True, errors="replace", env=env)
    if p.returncode != 0:
        r.failures.append(dict(why="enumerator died rc=%d: %s" % (p.returncode, p.stderr[-2000:]), case=dict(L=L, part=part, nparts=nparts)))
        return r
    j = json.loads(p.stdout)
    r.evaluations = j["evaluations"]
    r.extra["enum_nontrivial"] = j["nontrivial"]
    r.samples = j["samples"][:2]
    if j["fail"]:
        r.failures.append(dict(why=j["fail"], case=dict(input=j["input"])))
    return r


def run(tier):
    L = 12 if tier == "thorough" else 10
    ck = common.Check(PROP, tier, "exploration",
                      "enumerator: every string over {a,b,.,/} of length 1..%d (exhaustive); libFuzzer: NUL-free byte strings "
                      "and byte-decoded component sequences up to 4 KiB. Non-trivial = canonical form differs from the input "
                      "(enumerated strings are distinct by construction; fuzz inputs are counted by distinct hash)." % L,
                      ["POSIX build: backslash is an ordinary byte, slash_bits must be 0"])
    exe = build.program("enum_canon", "san")
    nparts = common.NCPU
    res = common.run_workers(_enum_part, [(exe, L, nparts, i) for i in range(nparts)])
    enum_nt = res.extra.pop("enum_nontrivial", 0)
    ck.merge(res)
    fres, viol = fuzz.run_target("fuzz_canon", runs=(3000000 if tier == "thorough" else 150000), max_len=4096,
                                 workers=common.NCPU)
    ck.merge(fres)
    for data, why in viol:
        ck.violation(data, why)
    for f in res.failures:
        if not f.get("harness_error"):
            ck.violation(f["case"], f["why"])
    ck.extra_cov.update(exhaustive=not res.failures, enumerated_length=L, enumerated_nontrivial=enum_nt,
                        fuzz_distinct_nontrivial=len(fres.nontrivial))
    # distinct_nontrivial: enumerated non-trivial strings (distinct by construction) + distinct fuzz hashes
    ck.res.nontrivial |= set("enum:%d" % i for i in range(0))  # (kept symbolic; count added below)
    ck.extra_cov["distinct_nontrivial"] = enum_nt + len(fres.nontrivial)
    return ck.finish()


def replay(path):
    data = open(path, "rb").read()
    if path.endswith(".json"):
        case = json.load(open(path))["case"]
        exe = build.program("enum_canon", "san")
        # single input: run through the fuzz target in raw mode
        data = b"\0" + case["input"].encode("latin-1")
        path = path + ".bin"
        open(path, "wb").write(data)
    exe = build.program("fuzz_canon", "fuzz", fuzzer=True)
    p = subprocess.run([exe, path], env=dict(os.environ, ASAN_OPTIONS="detect_leaks=0"))
    if p.returncode != 0:
        print("VIOLATION property=%s replay=%s" % (PROP, path))
        return 1
    return 0
