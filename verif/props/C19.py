"""C19 — dry runs and query tools observe without disturbing, and tell the truth.
E2E (the tools live in ninja.cc): on generated graphs and tree/log states (fresh, built, partially dirty, after a failed
build) each tool of {-n, commands, inputs, multi-inputs, query, targets (all/rule/depth), rules, graph, compdb,
compdb-targets, deps, missingdeps} runs on a target subset; oracle: no command executed, snapshot of all files
(content+mtime) and of the meaning of both logs unchanged, the real build that follows behaves as predicted by the
reference model (as if the tool had not run); -n -v lists the commands of the real build in dependency order (exact
without restat in the dirty closure, superset otherwise); -t commands lists the from-scratch commands; compdb output
passes a strict RFC 8259 recogniser and round-trips commands containing every byte value."""
import json, os, re, shutil, subprocess, traceback
from hypothesis import given, settings, seed as hseed, HealthCheck, Phase, Verbosity, strategies as st
from .. import build, common, graphs, models, simrun, e2e
from ..models import key, all_outs, producer_map
from . import simprops

PROP = "C19"
TOOLS = ['-n', 'commands', 'inputs', 'multi-inputs', 'query', 'targets_all', 'targets_rule', 'targets_depth', 'rules', 'graph', 'compdb', 'compdb-targets',
         'deps', 'missingdeps', '-n', 'commands']


# ---------------------------------------------------------------------------------------------- strict JSON recogniser (bytes)
class JsonError(Exception):
    pass


def parse_json_bytes(b):
    """RFC 8259 at the grammar level over bytes; string bytes >= 0x80 are opaque. Returns Python value with bytes strings."""
    pos = [0]

    def ws():
        while pos[0] < len(b) and b[pos[0]:pos[0] + 1] in b" \t\n\r":
            pos[0] += 1

    def value():
        ws()
        if pos[0] >= len(b):
            raise JsonError("unexpected end")
        c = b[pos[0]:pos[0] + 1]
        if c == b'{':
            pos[0] += 1
            d = {}
            ws()
            if b[pos[0]:pos[0] + 1] == b'}':
                pos[0] += 1
                return d
            while True:
                ws()
                k = string()
                ws()
                if b[pos[0]:pos[0] + 1] != b':':
                    raise JsonError("expected ':' at %d" % pos[0])
                pos[0] += 1
                d[k] = value()
                ws()
                if b[pos[0]:pos[0] + 1] == b',':
                    pos[0] += 1
                    continue
                if b[pos[0]:pos[0] + 1] == b'}':
                    pos[0] += 1
                    return d
                raise JsonError("expected ',' or '}' at %d" % pos[0])
        if c == b'[':
            pos[0] += 1
            a = []
            ws()
            if b[pos[0]:pos[0] + 1] == b']':
                pos[0] += 1
                return a
            while True:
                a.append(value())
                ws()
                if b[pos[0]:pos[0] + 1] == b',':
                    pos[0] += 1
                    continue
                if b[pos[0]:pos[0] + 1] == b']':
                    pos[0] += 1
                    return a
                raise JsonError("expected ',' or ']' at %d" % pos[0])
        if c == b'"':
            return string()
        m = re.compile(rb'-?(0|[1-9][0-9]*)(\.[0-9]+)?([eE][+-]?[0-9]+)?').match(b, pos[0])
        if m:
            pos[0] = m.end()
            return float(m.group(0))
        for lit, v in ((b'true', True), (b'false', False), (b'null', None)):
            if b.startswith(lit, pos[0]):
                pos[0] += len(lit)
                return v
        raise JsonError("unexpected byte %r at %d" % (c, pos[0]))

    def string():
        if b[pos[0]:pos[0] + 1] != b'"':
            raise JsonError("expected string at %d" % pos[0])
        pos[0] += 1
        out = bytearray()
        while True:
            if pos[0] >= len(b):
                raise JsonError("unterminated string")
            c = b[pos[0]]
            if c == 0x22:
                pos[0] += 1
                return bytes(out)
            if c < 0x20:
                raise JsonError("unescaped control character 0x%02x in string at %d" % (c, pos[0]))
            if c == 0x5c:
                e = b[pos[0] + 1:pos[0] + 2]
                simple = {b'"': 0x22, b'\\': 0x5c, b'/': 0x2f, b'b': 8, b'f': 12, b'n': 10, b'r': 13, b't': 9}
                if e in simple:
                    out.append(simple[e])
                    pos[0] += 2
                elif e == b'u':
                    h = b[pos[0] + 2:pos[0] + 6]
                    if not re.fullmatch(rb'[0-9a-fA-F]{4}', h):
                        raise JsonError("bad \\u escape at %d" % pos[0])
                    cp = int(h, 16)
                    out += (bytes([cp]) if cp < 0x80 else chr(cp).encode('utf-8', 'surrogatepass'))
                    pos[0] += 6
                else:
                    raise JsonError("invalid escape \\%s at %d" % (e.decode('latin-1'), pos[0]))
            else:
                out.append(c)
                pos[0] += 1

    v = value()
    ws()
    if pos[0] != len(b):
        raise JsonError("trailing bytes at %d" % pos[0])
    return v


# ---------------------------------------------------------------------------------------------- compdb with arbitrary bytes
def compdb_case(root, ninja, chunks):
    """chunks: list of byte strings placed into commands/paths. returns finding or None"""
    d = os.path.join(root, "cdb")
    shutil.rmtree(d, ignore_errors=True)
    os.makedirs(d)
    lines = []
    expect = []
    for i, ch in enumerate(chunks):
        esc = ch.replace(b"$", b"$$")
        lines.append(b"rule r%d\n  command = echo " % i + esc + b" > $out\n")
        lines.append(b"build out%d: r%d in%d\n" % (i, i, i))
        expect.append((b"echo " + ch + b" > out%d" % i, b"in%d" % i, b"out%d" % i))
    open(os.path.join(d, "build.ninja"), "wb").write(b"".join(lines))
    for args in (["-t", "compdb"], ["-t", "compdb"] + ["r%d" % i for i in range(len(chunks))], ["-t", "compdb-targets"] + ["out%d" % i for i in range(len(chunks))]):
        p = subprocess.run([ninja] + args, cwd=d, capture_output=True, timeout=60)
        if p.returncode != 0:
            return dict(kind="ninja %s failed (%d) on a valid manifest" % (" ".join(args[:2]), p.returncode), detail=p.stderr[-300:].decode('latin-1'))
        try:
            v = parse_json_bytes(p.stdout)
        except JsonError as e:
            return dict(kind="%s output is not valid JSON: %s" % (" ".join(args[:2]), e), detail=dict(chunks=[c.hex() for c in chunks]))
        if not isinstance(v, list) or len(v) != len(chunks):
            return dict(kind="%s lists %s entries, expected %d" % (" ".join(args[:2]), len(v) if isinstance(v, list) else type(v), len(chunks)), detail="")
        got = sorted((e.get(b'command'), e.get(b'file'), e.get(b'output')) for e in v)
        if got != sorted(expect):
            bad = [g for g in got if g not in expect][:1]
            return dict(kind="%s entry does not round-trip" % " ".join(args[:2]), detail=dict(got=[repr(x) for x in bad], chunks=[c.hex() for c in chunks]))
        for e in v:
            if e.get(b'directory') != os.path.realpath(d).encode() and e.get(b'directory') != d.encode():
                return dict(kind="compdb directory field is not the build directory", detail=repr(e.get(b'directory')))
        # if everything is valid UTF-8, Python's json must load it as well
        try:
            p.stdout.decode('utf-8')
            json.loads(p.stdout.decode('utf-8'))
        except UnicodeDecodeError:
            pass
        except ValueError as e:
            return dict(kind="compdb output is valid UTF-8 but rejected by a JSON parser: %s" % e, detail="")
    return None


# ---------------------------------------------------------------------------------------------- non-disturbance and truth
def snapshot(sim):
    files, _ = sim.scan_dir()
    return dict(files=files, log=sim.read_log(), deps=sim.read_deps())


def run_tool(sim, tool, targets):
    t0 = tool
    args = []
    g = sim.g
    rules = sorted(set('ccrsp' if e.get('rsp') is not None else 'cc' for e in g['edges'] if not e['phony'] and not e.get('bare'))) or ['cc']
    if tool == '-n':
        args = ["-n", "-v", "-j", "2"] + targets
    elif tool in ('commands', 'inputs', 'query', 'deps', 'compdb-targets'):
        args = ["-t", tool] + targets
    elif tool == 'multi-inputs':
        args = ["-t", "multi-inputs"] + targets
    elif tool == 'targets_all':
        args = ["-t", "targets", "all"]
    elif tool == 'targets_rule':
        args = ["-t", "targets", "rule", rules[0]]
    elif tool == 'targets_depth':
        args = ["-t", "targets", "depth", "2"]
    elif tool == 'rules':
        args = ["-t", "rules", "-d"]
    elif tool == 'graph':
        args = ["-t", "graph"] + targets
    elif tool == 'compdb':
        args = ["-t", "compdb"]
    elif tool == 'missingdeps':
        args = ["-t", "missingdeps"] + targets
    env = dict(os.environ, VERIF_TRACE=sim.trace_path, TERM="dumb")
    env.pop("MAKEFLAGS", None)
    try:
        os.unlink(sim.trace_path)
    except FileNotFoundError:
        pass
    p = subprocess.run([sim.ninja] + args, cwd=sim.dir, env=env, capture_output=True, timeout=60)
    ran = os.path.exists(sim.trace_path) and open(sim.trace_path).read().strip() != ""
    return p, ran, args


def edge_of_command(line):
    m = re.search(r"--id (\S+)", line)
    return m.group(1) if m else None


def case(root, g, ops, tool, sel, state_kind):
    if state_kind == 'dirty_straydf':
        # the graph gets, where it has none, a response-file statement (made unstartable below) and a statement with a
        # plain `depfile` whose files stay on disk: what a dry run that gives up half-way could wrongly "clean up"
        import copy
        g = copy.deepcopy(g)
        plain = [e for e in g['edges'] if not e['phony'] and not e.get('bare') and not e['generator'] and not e.get('dd') and not e.get('is_dd_producer')]
        if plain and not any(e.get('rsp') is not None for e in g['edges']):
            [e for e in plain if e['deps'] != 'msvc' or True][-1]['rsp'] = 'r0'
        free = [e for e in plain if e.get('rsp') is None and not e['deps']]
        if free and not any(e['deps'] in ('depfile', 'gcc') and e.get('rsp') is None for e in g['edges']):
            free[0].update(deps='depfile', hidden=[], depfile_layout=0, spell=0)
    sim = e2e.RealSim(root, g)
    labels = set()
    try:
        if state_kind != 'fresh':
            if not sim.establish():
                return None, labels
            for op in sim.expand(ops):
                if sim.stop:
                    return None, labels
                if op['op'] == 'build':
                    sim.build(op)
                else:
                    sim.apply_change(op)
            if sim.findings:
                return None, labels
        else:
            # a fresh tree needs a manifest on disk
            open(sim.path("build.ninja"), "w").write(graphs.real_manifest(sim.g, sim.vtool))
            if any(sim.unordered_hidden(e) for e in sim.cmd_edges()):
                return None, labels
        if state_kind in ('dirty', 'dirty_straydf'):
            for s in (sim.g['srcs'] if state_kind == 'dirty_straydf' else sim.g['srcs'][:2]):
                if not s.startswith('ddsrc'):
                    sim.write(s, sim.new_content(s, 5))
        if state_kind == 'dirty_straydf':
            # a depfile that a deps=gcc statement left behind (ninja died before reading it, or ran with -d keepdepfile)
            for e in sim.cmd_edges():
                if e.get('deps') == 'gcc':
                    dp = sim.path(models.depfile_path(e))
                    os.makedirs(os.path.dirname(dp), exist_ok=True)
                    with open(dp, "w") as f:
                        f.write("%s: %s\n" % (key(e), " ".join(e['exp'][:1] + list(e.get('hidden', [])))))
                    labels.add('stray_depfile_of_deps_statement')
        badrsp = False
        if state_kind == 'dirty_straydf' and any(e.get('rsp') is not None for e in sim.cmd_edges()):
            # ... and one statement cannot be started at all (its response file lives in a directory nothing creates): a run
            # that gives up half-way must still leave the tree alone
            [e for e in sim.cmd_edges() if e.get('rsp') is not None][0]['rspdir'] = 'nodir/'
            badrsp = True
            labels.add('statement_that_cannot_be_started')
        open(sim.path("build.ninja"), "w").write(graphs.real_manifest(sim.g, sim.vtool))
        if any(e.get('dd') for e in sim.g['edges']) and state_kind == 'fresh':
            return None, labels      # "graphs without pending dyndep files"
        targets = sim.targets_for(sel)
        labels.add('state_' + state_kind)
        labels.add('tool_' + tool)
        before = snapshot(sim)
        p, ran, args = run_tool(sim, tool, targets)
        after = snapshot(sim)
        detail = dict(tool=args, state=state_kind, manifest=graphs.manifest(sim.g)[-500:], stderr=p.stderr[-300:].decode('utf-8', 'replace'))
        if ran:
            return dict(kind="a build command was executed by `ninja %s`" % " ".join(args[:3]), detail=detail), labels
        # empty directories and response files may come and go in a dry run; everything else must be identical
        bf = {k: v for k, v in before['files'].items() if not k.endswith('.rsp')}
        af = {k: v for k, v in after['files'].items() if not k.endswith('.rsp')}
        if bf != af:
            diff = sorted(set(k for k in set(bf) | set(af) if bf.get(k) != af.get(k)))
            return dict(kind="`ninja %s` changed files: %s" % (" ".join(args[:3]), diff[:4]), detail=detail), labels
        if before['log'] != after['log'] or before['deps'] != after['deps']:
            return dict(kind="`ninja %s` changed the meaning of the build log or deps log" % " ".join(args[:3]), detail=detail), labels
        if badrsp:
            return None, labels     # listing and follow-up build are not judged: both the dry and the real run stop at that statement
        out = p.stdout.decode('utf-8', 'replace')
        pred = sim.model.plan(sim.g, sim.files, targets) if state_kind != 'fresh' else None
        prod = producer_map(sim.g)
        # ---- truth of -n
        if tool == '-n' and p.returncode == 0 and pred is not None and pred['error'] is None:
            listed = [edge_of_command(l) for l in out.splitlines() if l.startswith('[') and '--id ' in l]
            has_restat = any(models.is_restat(sim.edge_by_key(k_)) for k_ in pred.get('reached', []) if sim.edge_by_key(k_) and not sim.edge_by_key(k_)['phony'])
            missing = [r for r in pred['run'] if r not in listed]
            extra = [l for l in listed if l not in pred['run']]
            if missing or (extra and not has_restat):
                # attribute through the counterfactual models like every other run-set disagreement
                sim.last_model_before = sim.model
                known = sim.attribute(targets, sorted(listed), sim.files, [])
                if not known:
                    return dict(kind="-n lists %s, a real build runs %s" % (sorted(listed), sorted(pred['run'])), detail=detail), labels
            pos = {k_: i for i, k_ in enumerate(listed)}
            for k_ in listed:
                e = sim.edge_by_key(k_)
                if e is None:
                    continue
                for up in simrun.transitive_producers(sim.g, e, pred.get('disc', {})):
                    if up in pos and pos[up] > pos[k_]:
                        return dict(kind="-n lists %s before its producer %s" % (k_, up), detail=detail), labels
            labels.add('dry_run_listing_checked')
        # ---- truth of -t commands
        if tool == 'commands' and p.returncode == 0:
            listed = [edge_of_command(l) for l in out.splitlines() if '--id ' in l]
            want = set()
            todo = list(targets)
            while todo:
                n = todo.pop()
                e = prod.get(n)
                if e is None or key(e) in want:
                    continue
                want.add(key(e))
                todo += e['exp'] + e['imp'] + e['oo'] + ([e['dd']] if e.get('dd') else [])
            want = set(k_ for k_ in want if not sim.edge_by_key(k_)['phony'])
            if set(listed) - want or (want - set(listed)):
                # statements reached only through dyndep / discovered inputs or validations may legitimately be absent
                hard_missing = want - set(listed)
                if hard_missing or (set(listed) - want - set(key(e) for e in sim.g['edges'])):
                    return dict(kind="-t commands lists %s, the from-scratch build of %s runs %s" % (sorted(set(listed)), targets, sorted(want)), detail=detail), labels
            pos = {k_: i for i, k_ in enumerate(listed)}
            for k_ in listed:
                e = sim.edge_by_key(k_)
                for up in simrun.transitive_producers(sim.g, e, {}) if e else []:
                    if up in pos and pos[up] > pos[k_]:
                        return dict(kind="-t commands lists %s before its producer %s" % (k_, up), detail=detail), labels
            labels.add('commands_listing_checked')
        if tool in ('compdb', 'compdb-targets') and p.returncode == 0:
            try:
                parse_json_bytes(p.stdout)
            except JsonError as e:
                return dict(kind="%s output is not valid JSON: %s" % (tool, e), detail=detail), labels
        # ---- the next real build behaves as if the tool had not run (model prediction + content oracle inside build())
        if state_kind != 'fresh':
            n0 = len(sim.findings)
            sim.build(dict(op='build', sel=sel, j=2, k=1, sched=[]))
            new = [f for f in sim.findings[n0:] if not f['known']]
            if new:
                return dict(kind="after `ninja %s` the real build misbehaves: %s" % (" ".join(args[:3]), new[0]['kind']), detail=dict(detail, finding=new[0]['detail'])), labels
            labels.add('followed_by_real_build')
        return None, labels
    finally:
        sim.close()


def worker(widx, n_examples, n_compdb):
    res = common.Result()
    state = {}
    budget = common.ShrinkBudget()
    root = common.scratch_root()
    ninja = build.ninja_binary("rel")
    try:
        feats = dict(unordered_hidden=False, restat=(widx % 2 == 0), hidden_generated=False, deps=(widx % 2 == 1), dyndep=False)

        @hseed(common.sub_seed(PROP, widx))
        @settings(max_examples=n_examples, deadline=None, database=None, suppress_health_check=list(HealthCheck),
                  phases=[Phase.generate, Phase.shrink], verbosity=Verbosity.quiet, report_multiple_bugs=False)
        @given(graphs.graphs(max_edges=6, features=feats), graphs.histories(max_ops=4, with_failures=True), st.sampled_from(TOOLS), st.integers(0, 40),
               st.sampled_from(['built', 'dirty', 'dirty', 'fresh', 'dirty_straydf']))
        def test(g, ops, tool, sel, state_kind):
            c = dict(g=g, ops=ops, tool=tool, sel=sel, state=state_kind)
            dg = common.digest(c)
            if budget.skip(dg):
                return
            f, labels = case(root, g, ops, tool, sel, state_kind)
            nt = bool(labels) and state_kind != 'fresh'
            res.case(c, nt, ['h:' + l for l in labels], sample=dict(tool=tool, state=state_kind, manifest=graphs.manifest(g)[-300:]) if nt else None)
            if f:
                state['fail'] = (c, "[real binary] %s %s" % (f['kind'], json.dumps(f['detail'], default=repr)[:1200]))
                budget.failed(dg)
                raise AssertionError()
        common.run_hypothesis(test, state, res)

        byte = st.integers(1, 255).filter(lambda c: c not in (10, 13)).map(lambda c: bytes([c]))
        chunk = st.lists(st.one_of(byte, st.sampled_from([b'"', b'\\', b'\\"', b'\t', b'\x0b', b'\x08', b'\x0c', b'\x1f', b'\x7f', b'\xc3\xa9', b'\xff', b"'", b'/', b'</'])),
                         min_size=1, max_size=12).map(b"".join)
        st2 = {}

        @hseed(common.sub_seed(PROP, 'cdb', widx))
        @settings(max_examples=n_compdb, deadline=None, database=None, suppress_health_check=list(HealthCheck),
                  phases=[Phase.generate, Phase.shrink], verbosity=Verbosity.quiet, report_multiple_bugs=False)
        @given(st.lists(chunk, min_size=1, max_size=6))
        def test2(chunks):
            # leading/trailing blanks of a command are trimmed by the manifest syntax itself: keep them inside
            chunks = [b"x" + c + b"x" for c in chunks]
            f = compdb_case(root, ninja, chunks)
            res.case(dict(chunks=[c.hex() for c in chunks]), True, ['h:compdb_bytes'], sample=dict(chunks=[repr(c) for c in chunks[:2]]))
            if f:
                st2['fail'] = (dict(chunks=[c.hex() for c in chunks]), "[real binary] %s %s" % (f['kind'], json.dumps(f['detail'], default=repr)[:600]))
                raise AssertionError()
        common.run_hypothesis(test2, st2, res)
        # every single byte value once (exhaustive over 1..255 except LF/CR)
        if widx == 0:
            allb = [b"x" + bytes([c]) + b"y" for c in range(1, 256) if c not in (10, 13)]
            for i in range(0, len(allb), 32):
                f = compdb_case(root, ninja, allb[i:i + 32])
                res.evaluations += 1
                if f:
                    res.failures.append(dict(case=dict(chunks=[c.hex() for c in allb[i:i + 32]]), why="[real binary] %s %s" % (f['kind'], json.dumps(f['detail'], default=repr)[:600])))
                    break
    finally:
        shutil.rmtree(root, ignore_errors=True)
    return res


def replay_case(c):
    root = common.scratch_root()
    try:
        if 'chunks' in c:
            f = compdb_case(root, build.ninja_binary("rel"), [bytes.fromhex(x) for x in c['chunks']])
        else:
            f, _ = case(root, c['g'], c['ops'], c['tool'], c['sel'], c['state'])
    finally:
        shutil.rmtree(root, ignore_errors=True)
    return f['kind'] if f else None


def replay_regressions(ck):
    """saved shrunk cases (regress/*_C19_*.json) are re-executed first; a failing one means a repaired defect came back"""
    import glob
    n = 0
    for path in sorted(glob.glob(os.path.join(common.VERIF, 'regress', '*_C19_*.json'))):
        case = json.load(open(path))['case']
        n += 1
        why = replay_case(case)
        if why:
            ck.violation(case, "regression file %s: %s" % (os.path.basename(path), why if isinstance(why, str) else 'violation'))
    ck.extra_cov['regression_cases_replayed'] = n


def run(tier):
    thorough = tier == 'thorough'
    ck = common.Check(PROP, tier, "exploration",
                      "E2E with the real binary: generated graph (<=6 statements) x history (incl. failing builds) x tree state {fresh, built, dirty, dirty with depfiles left behind by deps=gcc statements} x one "
                      "of 14 tool invocations on a generated target subset; oracle: vtool trace empty, every file's content and mtime and both logs' meaning "
                      "unchanged, listing of -n -v / -t commands equals the reference model's run set / the from-scratch closure in dependency order, compdb "
                      "output accepted by a strict RFC 8259 recogniser, and the real build that follows is checked by the C01/C03 oracles. compdb part: "
                      "commands containing generated byte strings (every byte 1..255 except LF/CR exhaustively, plus random mixes of quotes, backslashes, "
                      "control bytes, high bytes) must round-trip through -t compdb, -t compdb <rules>, -t compdb-targets. Non-trivial = a tool ran on a "
                      "tree that had been built (or is partially dirty); compdb cases are distinct by their byte strings.",
                      simprops.ASSUME + ["empty directories and response files are not part of the snapshot (a dry run may create/remove them)",
                                         "-t commands may omit statements that are needed only as validations"])
    replay_regressions(ck)
    r = common.run_workers(worker, [(w, (500 if thorough else 60), (500 if thorough else 40)) for w in range(common.NCPU)])
    ck.merge(r)
    for f in r.failures:
        if f.get('harness_error'):
            continue
        fails = sum(1 for _ in range(3) if replay_case(f['case']))
        if fails == 3:
            ck.violation(f['case'], f['why'])
        else:
            ck.res.notes.append("FLAKY %d/3: %s" % (fails, f['why'][:200]))
    return ck.finish()


def replay(path):
    j = json.load(open(path))
    why = replay_case(j.get('case', j))
    if why:
        print("finding:", why)
        print("VIOLATION property=%s replay=%s" % (PROP, path))
        return 1
    print("replay: no violation")
    return 0
