"""C17 — dependency cycles are always diagnosed, and only real ones.
(1) ALL graphs with 2 statements over 4 files with every input kind (and 3 statements in the thorough tier), every
target; (2) generated larger graphs into which a cycle is injected through a manifest input of any kind, a depfile,
the deps log (a recorded header becomes an output of a new statement) or a phony self-reference, inside or outside
the requested closure, plus acyclic controls with validations pointing back at their requester.
Oracle: reference cycle finder on the needed closure; the printed cycle must be a real cycle; nothing runs."""
import copy, itertools, json, os, re
from hypothesis import given, settings, seed as hseed, HealthCheck, Phase, Verbosity, strategies as st
from .. import common, graphs, models, simrun
from ..models import key, all_outs, producer_map
from ..probe import Probe, ProbeDied

PROP = "C17"
D1 = 'D1_dirty_edge_ignores_discovered_inputs'
D19 = 'D19_scan_time_dyndep_output_cycle_depends_on_visit_order'


def find_cycle(g, targets, disc=None, phony_filter=True):
    """reference: is there a cycle in the part of the graph needed for targets (inputs of every kind + valid discovered
    deps + what the dyndep files of *reached* statements add; validations are additional roots, not edges)?
    returns list of edge keys on a cycle or None"""
    disc = disc or {}
    base = {}
    for e in g['edges']:
        for o in all_outs(e):
            base[o] = e

    def ins_of(e):
        ins = e['exp'] + e['imp'] + e['oo'] + list(disc.get(key(e), [])) + models.dd_inputs(g, e) + ([e['dd']] if e.get('dd') else [])
        if phony_filter and e['phony'] and len(all_outs(e)) == 1 and not e['imp']:
            ins = [i for i in ins if i != key(e)]       # the documented legacy self-reference filter
        return ins

    # statements whose dyndep information ninja gets to see: those reached from the targets (fixpoint, because an
    # implicit output added by a reached statement makes that statement the producer of a file)
    prod = dict(base)
    while True:
        reached, todo = set(), list(targets)
        while todo:
            n = todo.pop()
            e = prod.get(n)
            if e is None or key(e) in reached:
                continue
            reached.add(key(e))
            todo += ins_of(e) + e.get('vals', [])
        newprod = dict(base)
        loaded = set(e['dd'] for e in g['edges'] if key(e) in reached and e.get('dd'))     # a dyndep file is loaded as a whole
        for e in g['edges']:
            if e.get('dd') in loaded:
                for o in e.get('dd_outs', []):
                    newprod[o] = e
        if newprod == prod:
            break
        prod = newprod
    color = {}
    roots = list(targets)
    found = []

    def visit(n, stack):
        e = prod.get(n)
        if e is None or found:
            return
        k = key(e)
        if color.get(k) == 2:
            return
        if color.get(k) == 1:
            found.append(stack[stack.index(k):] + [k])
            return
        color[k] = 1
        roots.extend(e.get('vals', []))
        for i in ins_of(e):
            visit(i, stack + [k])
            if found:
                return
        color[k] = 2
    i = 0
    while i < len(roots) and not found:
        visit(roots[i], [])
        i += 1
    return found[0] if found else None


def check_cycle_message(g, err, disc):
    """the printed cycle must be an actual cycle: a -> b means b is an input of the statement producing a"""
    m = re.match(r"dependency cycle: (.*?)( \[-w phonycycle=err\])?$", err)
    if not m:
        return "no 'dependency cycle:' message: %r" % err
    nodes = m.group(1).split(" -> ")
    if len(nodes) < 2 or nodes[0] != nodes[-1]:
        return "printed cycle does not return to its start: %r" % err
    prod = producer_map(g)
    for a, b in zip(nodes, nodes[1:]):
        e = prod.get(a)
        if e is None:
            return "printed cycle goes through %r which no statement produces" % a
        if b not in e['exp'] + e['imp'] + e['oo'] + list(disc.get(key(e), [])) + models.dd_inputs(g, e) + ([e['dd']] if e.get('dd') else []):
            return "printed hop %s -> %s is not an input of the statement producing %s" % (a, b, a)
    return None


def judge(sim, g, targets, res, phony_err=False, disc=None, model=None, files_before=None, inject=None):
    """compare one invocation with the reference; returns (why, known_sig) or None"""
    disc = disc or {}
    cyc = find_cycle(g, targets, disc, phony_filter=not phony_err)
    starts = [ev['edge'] for ev in res['trace'] if ev['ev'] == 'start']
    reported = 'dependency cycle' in (res.get('err') or '')
    if 'stuck' in (res.get('err') or '') and res.get('status') == 0:
        # whatever made the plan deadlock (the known visit-order finding does), giving up must not pass for success
        return ("a build that cannot make progress ('stuck') reports success: targets %s" % targets, None)
    if cyc and not reported:
        # known finding D1: a cycle closed only by discovered inputs of a statement that is dirty for its own reasons
        if model is not None and find_cycle(g, targets, {}, phony_filter=not phony_err) is None:
            p = model.plan(g, files_before, targets, cf_dirty_ignores_discovered=True)
            if p['error'] is None and p['ignored']:
                return ("cycle through discovered inputs not diagnosed (statement already dirty)", D1)
        sig = None
        ddfin_ = [ev['seq'] for ev in res['trace'] if ev['ev'] == 'finish' and sim is not None and (sim.edge_by_key(ev['edge']) or {}).get('is_dd_producer')]
        cons_start = [ev['seq'] for ev in res['trace'] if ev['ev'] == 'start' and inject is not None and ev['edge'] == inject.get('consumed_by')]
        bound_unplanned = False
        if inject is not None and inject.get('kind') == 'dyndep_out_cycle':
            # is the bound statement part of the plan before its dyndep file is read (closure without dyndep-added outputs)?
            prod0 = {o: e for e in g['edges'] for o in e['outs'] + e.get('iouts', [])}
            seen0, todo0 = set(), list(targets)
            while todo0:
                n0 = todo0.pop()
                e0 = prod0.get(n0)
                if e0 is None or key(e0) in seen0:
                    continue
                seen0.add(key(e0))
                todo0 += e0['exp'] + e0['imp'] + e0['oo'] + list(disc.get(key(e0), [])) + models.dd_inputs(g, e0) + ([e0['dd']] if e0.get('dd') else [])
            bound_unplanned = inject.get('edge') not in seen0
        if inject is not None and inject.get('kind') == 'dyndep_out_cycle' and (
                not inject.get('mid_build') or not cons_start or (ddfin_ and cons_start[0] < max(ddfin_)) or bound_unplanned):
            # known finding D19: the output is added by a dyndep file that is loaded during the initial scan, after the
            # statement consuming that file (then still a plain source) has been visited, or mid-build while that
            # statement is up to date (not part of the plan) or was already started before the file could be read, or
            # while the statement that gets the output is itself not part of the plan (nothing requested needs it by
            # what the manifest says, so Plan::UnmarkDependents skips it and the consumers of its new output);
            # in all these cases the consuming statement is not re-scanned
            sig = D19
        return ("cycle %s in the needed part of the graph is not diagnosed: phase=%s status=%s err=%r started=%s" % (cyc, res['phase'], res['status'], res['err'], starts), sig)
    if reported and not cyc:
        return ("acyclic graph rejected as cyclic: %r (targets %s)" % (res['err'], targets), None)
    if reported:
        bad = check_cycle_message(g, res['err'], disc)
        if bad:
            return (bad, None)
        # statements of the cycle must not be started once the cycle is known: from the beginning for a cycle visible at
        # scan time, after the dyndep file's producer has finished for one that appears mid-build
        cyc_edges = set(cyc)
        ddfin = [ev['seq'] for ev in res['trace'] if ev['ev'] == 'finish' and (sim.edge_by_key(ev['edge']) or {}).get('is_dd_producer')] if sim else []
        after = max(ddfin) if ddfin else -1
        late = [ev['edge'] for ev in res['trace'] if ev['ev'] == 'start' and ev['seq'] > after and ev['edge'] in cyc_edges]
        if late or (starts and not ddfin):
            return ("commands %s were run although a cycle was diagnosed" % (late or starts), None)
        if res['status'] == 0:
            return ("cycle diagnosed but the invocation reports success", None)
    return None


# ---------------------------------------------------------------------------------------------- exhaustive part
def small_graphs(nstmt, kinds, nfiles=4):
    files = ['a', 'b', 'c', 'd'][:nfiles]
    for outs in itertools.permutations(files, nstmt):
        if list(outs) != sorted(outs):
            continue
        per = []
        for o in outs:
            others = [f for f in files if f != o] + [o]      # a statement may also name its own output (self cycle)
            per.append([dict(zip(others, ks)) for ks in itertools.product(kinds, repeat=len(others))])
        for combo in itertools.product(*per):
            edges = []
            for o, cfg in zip(outs, combo):
                e = dict(outs=[o], iouts=[], phony=False, exp=[f for f, k in cfg.items() if k == 'e'], imp=[f for f, k in cfg.items() if k == 'i'],
                         oo=[f for f, k in cfg.items() if k == 'o'], vals=[f for f, k in cfg.items() if k == 'v'], restat=False, generator=False, deps='',
                         hidden=[], variant='v0', pool='', rsp=None, dd=None)
                edges.append(e)
            yield dict(srcs=[f for f in files if f not in outs], edges=edges, pools={})


def enum_worker(part, nparts, nstmt, kinds, nfiles):
    res = common.Result()
    with Probe("fast") as probe:
        for idx, g in enumerate(small_graphs(nstmt, kinds, nfiles)):
            if idx % nparts != part:
                continue
            files = {s: {'c': s, 'm': 11 + i} for i, s in enumerate(g['srcs'])}
            files['build.ninja'] = {'c': graphs.manifest(g), 'm': 1}
            d = probe.newdir()
            try:
                for t in [key(e) for e in g['edges']]:
                    req = dict(kind="sim", files=files, dirs=[], now=50, logdir=d, targets=[t], j=2, k=1, edges=graphs.sim_edges(g), schedule=[], no_regen=True)
                    try:
                        r = probe.request(req, timeout_ms=20000)
                    except ProbeDied as dd:
                        res.failures.append(dict(case=dict(g=g, targets=[t]), why="crash/hang while scanning a small graph: " + dd.describe()))
                        return res
                    cyc = find_cycle(g, [t])
                    res.case(dict(g=g, t=t), cyc is not None, ['cyclic' if cyc else 'acyclic'],
                             sample=dict(manifest=graphs.manifest(g).split("$rsptag $in\n")[1], target=t) if (cyc and idx % 997 == 0) else None)
                    out = judge(None, g, [t], r)
                    if out:
                        res.failures.append(dict(case=dict(g=g, targets=[t]), why=out[0]))
                        return res
            finally:
                probe.rmdir(d)
    return res


# ---------------------------------------------------------------------------------------------- generated part
def inject(draw_ints, sim, kind):
    """closes a cycle (or builds an acyclic control) in sim.g; returns description or None if not applicable"""
    g = sim.g
    a, b, c = draw_ints
    cmds = [e for e in g['edges']]
    prod = producer_map(g)
    if kind in ('manifest_exp', 'manifest_imp', 'manifest_oo'):
        # pick an edge E and an edge F downstream of E (F consumes E's output transitively); make E consume F's output
        pairs = []
        for f in cmds:
            ups = simrun.transitive_producers(g, f, {})
            for ek in ups:
                pairs.append((sim.edge_by_key(ek), f))
        pairs += [(e, e) for e in cmds if not e['phony']]           # length-one cycle
        if not pairs:
            return None
        e, f = pairs[a % len(pairs)]
        fld = {'manifest_exp': 'exp', 'manifest_imp': 'imp', 'manifest_oo': 'oo'}[kind]
        out = all_outs(f)[b % len(all_outs(f))]
        if out not in e[fld]:
            e[fld].append(out)
        return dict(kind=kind, frm=key(e), to=key(f))
    if kind == 'depfile':
        es = [e for e in cmds if e.get('deps') == 'depfile']
        cand = []
        for e in es:
            for f in cmds:
                if key(e) in simrun.transitive_producers(g, f, {}) or f is e:
                    cand.append((e, f))
        if not cand:
            return None
        e, f = cand[a % len(cand)]
        out = all_outs(f)[b % len(all_outs(f))]
        e['hidden'] = list(e['hidden']) + [out]
        df = models.depfile_path(e)
        sim.write(df, "%s: %s\n" % (key(e), " ".join(e['hidden'])))
        sim.model.dfile[df] = list(e['hidden'])
        return dict(kind=kind, frm=key(e), to=key(f))
    if kind == 'depslog':
        # a recorded header (a source) becomes the output of a new statement that depends on its consumer
        es = [e for e in cmds if e.get('deps') in ('gcc', 'msvc') and any(h in g['srcs'] for h in e.get('hidden', []))]
        if not es:
            return None
        e = es[a % len(es)]
        h = [x for x in e['hidden'] if x in g['srcs']][0]
        consumers = [f for f in cmds if key(e) in simrun.transitive_producers(g, f, {})] + [e]
        f = consumers[b % len(consumers)]
        g['srcs'].remove(h)
        g['edges'].append(dict(outs=[h], iouts=[], phony=False, exp=[all_outs(f)[0]], imp=[], oo=[], vals=[], restat=False, generator=False, deps='',
                               hidden=[], variant='v0', pool='', rsp=None, dd=None))
        return dict(kind=kind, header=h, consumer=key(e), via=key(f))
    if kind == 'depslog_self':
        # a command lists its own output among its dependencies; the deps log then records a cycle of length one
        es = [e for e in cmds if e.get('deps') in ('gcc', 'msvc') and len(all_outs(e)) == 1 and any(i in g['srcs'] for i in e['exp'] + e['imp'])]
        if not es:
            return None
        e = es[a % len(es)]
        e['report_extra'] = [key(e)]
        return dict(kind=kind, edge=key(e), record_first=[i for i in e['exp'] + e['imp'] if i in g['srcs']][0])
    if kind == 'phony_self':
        es = [e for e in cmds if e['phony']]
        if not es:
            return None
        e = es[a % len(es)]
        fld = ['exp', 'oo'][b % 2]
        e[fld] = e[fld] + [key(e)]
        return dict(kind=kind, edge=key(e))
    if kind in ('dyndep_in_cycle', 'dyndep_out_cycle'):
        bound = [e for e in cmds if e.get('dd')]
        if not bound:
            return None
        e = bound[a % len(bound)]
        dd = e['dd']
        if kind == 'dyndep_in_cycle':
            down = [f for f in cmds if key(e) in simrun.transitive_producers(g, f, {})] + [e]
            f = down[b % len(down)]
            e['dd_ins'] = list(e.get('dd_ins', [])) + [all_outs(f)[0]]
            desc = dict(kind=kind, edge=key(e), gets_input=all_outs(f)[0])
        else:
            # a source consumed upstream of e becomes an implicit output of e
            # (not through the producer of the dyndep file itself: that statement has necessarily completed before the
            # file can be read, so such a cycle cannot be diagnosed in time by any implementation)
            ddprod = set(simrun.transitive_producers(g, dict(outs=['\0probe'], exp=[dd], imp=[], oo=[]), {})) | {dd}
            ups = [sim.edge_by_key(k) for k in simrun.transitive_producers(g, e, {}) if k not in ddprod]
            cand = [(u, i) for u in ups for i in u['exp'] + u['imp'] if i in g['srcs']]
            if not cand:
                return None
            u, srcname = cand[b % len(cand)]
            e['dd_outs'] = list(e.get('dd_outs', [])) + [srcname]
            desc = dict(kind=kind, edge=key(e), gets_output=srcname, consumed_by=key(u))
        text = models.dyndep_text(g, dd)
        if g['dd_files'][dd]['produced']:
            pe = sim.edge_by_key(dd)
            pe['content_override'] = {dd: dict(by='', table={}, default=text)}
            sim.write(pe['exp'][0], sim.new_content(pe['exp'][0], 5))      # the producer is dirty: the file is loaded mid-build
            desc['mid_build'] = True
            if kind == 'dyndep_out_cycle' and c % 3:
                # the consuming statement is dirty too: it is already wanted (possibly scheduled) when the file is read
                sim.write(srcname, sim.new_content(srcname, 6))
                desc['consumer_dirty'] = True
        else:
            sim.write(dd, text)
        return desc
    if kind == 'dyndep_chain_cycle':
        # two dyndep files, the second made from an output of a statement X bound to the first: when the first file is loaded
        # mid-build it gives X an input that a statement bound to the *second* file produces - X -> b -> second file -> X, a
        # cycle through a statement whose own dyndep file is still pending (and can never be built)
        if not g.get('dd_chained'):
            return None
        pe1 = sim.edge_by_key('dd1')
        pe0 = sim.edge_by_key('dd0')
        X = [e for e in cmds if e.get('dd') == 'dd0' and e['outs'][0] in pe1['exp']]
        bs = [e for e in cmds if e.get('dd') == 'dd1']
        if not X or not bs or pe0 is None:
            return None
        X, f = X[0], bs[b % len(bs)]
        X['dd_ins'] = list(X.get('dd_ins', [])) + [all_outs(f)[0]]
        pe0['content_override'] = {'dd0': dict(by='', table={}, default=models.dyndep_text(g, 'dd0'))}
        for pe in (pe0, pe1):
            src = [i for i in pe['exp'] if i in g['srcs']][0]
            sim.write(src, sim.new_content(src, 5))       # both producers are dirty: both files are loaded mid-build
        return dict(kind=kind, edge=key(X), gets_input=all_outs(f)[0], mid_build=True)
    if kind == 'validation_back':
        # acyclic control: a statement validates something that depends on it
        pairs = [(sim.edge_by_key(ek), f) for f in cmds for ek in simrun.transitive_producers(g, f, {})]
        if not pairs:
            return None
        e, f = pairs[a % len(pairs)]
        if key(f) not in e['vals']:
            e['vals'] = e['vals'] + [key(f)]
        return dict(kind=kind, requester=key(e), validation=key(f))
    return None


KINDS = ['manifest_exp', 'manifest_imp', 'manifest_oo', 'depfile', 'depslog', 'depslog_self', 'phony_self', 'validation_back', 'dyndep_in_cycle', 'dyndep_out_cycle',
         'dyndep_in_cycle', 'dyndep_out_cycle']


def run_cycle_case(probe, g, ops, inj):
    """establish, play a short history, inject, then build every kind of target set and judge each invocation"""
    sim = simrun.Sim(probe, g)
    labels = set()
    try:
        if not sim.establish():
            return [f for f in sim.findings], labels
        for op in ops:
            if sim.stop:
                break
            if op['op'] == 'build':
                if not op.get('faults'):
                    sim.build(op)
            elif op['op'] in ('edit', 'touch', 'del_out', 'variant', 'edit_hidden'):
                sim.apply_change(op)
        kind, a, b, c, phony_err, dirty_first = inj
        if dirty_first:
            # make things dirty for their own reasons first (the D1 shape is then reachable)
            sim.apply_change(dict(op='edit', a=a, c=5))
        desc = inject((a, b, c), sim, kind)
        if desc is None:
            return [], labels
        labels.add('inject_' + kind)
        findings = []
        if desc.get('record_first'):
            # the self-reference only exists once a build has recorded it: run the statement once more (not judged)
            sim.touch(desc['record_first'])
            r0 = sim.invoke([desc['edge']], j=1, oracles=False)
            if r0 is None or r0['status'] != 0:
                return [], labels
        outs = [key(e) for e in sim.g['edges']]
        tsets = [[t] for t in outs] + [outs]
        import os
        logs = {}
        for fn in (".ninja_log", ".ninja_deps"):
            pth = os.path.join(sim.logdir, fn)
            logs[fn] = open(pth, "rb").read() if os.path.exists(pth) else None
        for targets in tsets[:8]:
            # every target set is judged from the same state: put the logs back as well
            for fn, data in logs.items():
                pth = os.path.join(sim.logdir, fn)
                if data is None:
                    if os.path.exists(pth):
                        os.unlink(pth)
                else:
                    open(pth, "wb").write(data)
            files_before = copy.deepcopy(sim.files)
            model = sim.model.clone()
            p = model.plan(sim.g, sim.files, targets)
            disc = p.get('disc', {})
            # discovered inputs the reference considers: valid ones on record
            disc_all = {}
            for e in sim.g['edges']:
                ok, d = model.discovered(sim.g, e, sim.files)
                if ok and d:
                    disc_all[key(e)] = d
            req = sim.request(targets, j=1 + (c % 2), k=1, extra=dict(phony_cycle_err=bool(phony_err)))
            try:
                r = probe.request(req, timeout_ms=20000)
            except ProbeDied as dd:
                findings.append(dict(prop=PROP, kind='crash or hang', detail=dd.describe(), known=simrun.classify_died(sim.g, dd)))
                break
            cyc = find_cycle(sim.g, targets, disc_all, phony_filter=not phony_err)
            labels.add('cyclic_closure' if cyc else 'acyclic_closure')
            if cyc and kind in ('depfile', 'depslog', 'depslog_self'):
                labels.add('cycle_via_discovered')
            if cyc and kind.startswith('dyndep') and desc.get('mid_build'):
                labels.add('cycle_appears_mid_build')
                if desc.get('consumer_dirty'):
                    labels.add('cycle_appears_mid_build_consumer_already_wanted')
            out = judge(sim, sim.g, targets, r, phony_err=bool(phony_err), disc=disc_all, model=model, files_before=files_before, inject=desc)
            if out:
                findings.append(dict(prop=PROP, kind=out[0], detail=dict(inject=desc, targets=targets, manifest=graphs.manifest(sim.g)), known=out[1]))
                break
        return findings, labels
    finally:
        sim.close()


def gen_worker(widx, n_examples, focus=None):
    res = common.Result()
    known = common.Known()
    state = {}
    budget = common.ShrinkBudget()
    with Probe("fast") as pf, Probe("san") as ps:
        # focus='dyndep': every graph has dyndep files and the injection always goes through one (these shapes are rare in
        # the general family: a bound statement, an upstream plain-source consumer, a produced file)
        feats = dict(unordered_hidden=False, dyndep='some') if focus is None else dict(unordered_hidden=False, dyndep=True, deps=False, rsp=False, pools=False)
        kinds = KINDS if focus is None else ['dyndep_in_cycle', 'dyndep_out_cycle', 'dyndep_out_cycle']
        if focus == 'chain':
            feats = dict(feats, dd_force_chain=True)
            kinds = ['dyndep_chain_cycle', 'dyndep_chain_cycle', 'dyndep_in_cycle']

        @hseed(common.sub_seed(PROP, widx, focus or ''))
        @settings(max_examples=n_examples, deadline=None, database=None, suppress_health_check=list(HealthCheck),
                  phases=[Phase.generate, Phase.shrink], verbosity=Verbosity.quiet, report_multiple_bugs=False)
        @given(graphs.graphs(max_edges=7 if focus is None else 5, features=feats), graphs.histories(max_ops=4 if focus is None else 2, with_failures=False),
               st.tuples(st.sampled_from(kinds), st.integers(0, 40), st.integers(0, 40), st.integers(0, 40), st.booleans(), st.booleans()))
        def test(g, ops, inj):
            case = dict(g=g, ops=ops, inj=list(inj))
            dg = common.digest(case)
            if budget.skip(dg):
                return
            findings, labels = run_cycle_case(ps if int(dg, 16) % 6 == 0 else pf, g, ops, inj)
            res.case(case, 'cyclic_closure' in labels, ['h:' + l for l in labels],
                     sample=dict(manifest=graphs.manifest(g)[-500:], inject=list(inj)) if 'cycle_via_discovered' in labels else None)
            for f in findings:
                if f['prop'] != PROP:
                    continue
                if f['known'] and known.listed(PROP, f['known']):
                    res.known_hits[f['known']] += 1
                    continue
                state['fail'] = (case, "%s %s" % (f['kind'], json.dumps(f['detail'], default=repr)[:1200]))
                budget.failed(dg)
                raise AssertionError()
        common.run_hypothesis(test, state, res)
    return res


def replay_case(case):
    if 'inj' not in case:
        with Probe("san") as p:
            g = case['g']
            files = {s: {'c': s, 'm': 11 + i} for i, s in enumerate(g['srcs'])}
            files['build.ninja'] = {'c': graphs.manifest(g), 'm': 1}
            d = p.newdir()
            try:
                r = p.request(dict(kind="sim", files=files, dirs=[], now=50, logdir=d, targets=case['targets'], j=2, k=1, edges=graphs.sim_edges(g), schedule=[], no_regen=True))
            except ProbeDied as dd:
                return dd.describe()
            out = judge(None, g, case['targets'], r)
            return out[0] if out else None
    known = common.Known()
    with Probe("san") as p:
        findings, _ = run_cycle_case(p, copy.deepcopy(case['g']), copy.deepcopy(case['ops']), tuple(case['inj']))
    for f in findings:
        if f['prop'] == PROP and not (f['known'] and known.listed(PROP, f['known'])):
            return f['kind']
    return None


def replay_regressions(ck):
    """saved shrunk cases (regress/*_C17_*.json) are re-executed first; a failing one means a repaired defect came back"""
    import glob
    n = 0
    for path in sorted(glob.glob(os.path.join(common.VERIF, 'regress', '*_C17_*.json'))):
        case = json.load(open(path))['case']
        n += 1
        why = replay_case(case)
        if why:
            ck.violation(case, "regression file %s: %s" % (os.path.basename(path), why if isinstance(why, str) else 'violation'))
    ck.extra_cov['regression_cases_replayed'] = n


def run(tier):
    thorough = tier == "thorough"
    ck = common.Check(PROP, tier, "exploration",
                      "exhaustive: every graph of 2 statements over 3 files (thorough: 4 files) where each statement may name every other file and itself as explicit / implicit / "
                      "order-only input or validation and every graph of 3 statements over 3 files with explicit / order-only inputs, every single target; generated: "
                      "graphs up to 7 statements with a short history, then one injection (manifest cycle through an explicit, implicit or order-only input of "
                      "any length incl. length one, cycle closed by a depfile, by the deps log when a recorded header becomes an output, by a dyndep file (added input, or added output that an upstream statement consumes; with two files chained, through a statement whose own file is still pending; file present at scan time or produced mid-build), phony self-reference "
                      "in both -w modes, or the acyclic control 'validation depends on its requester'), judged for every single target and for all targets. "
                      "Oracle: reference DFS on the needed closure; the printed cycle is checked hop by hop. Non-trivial = the requested closure is cyclic.",
                      ["for a cycle that appears when a dyndep file is loaded mid-build, statements that were started before the load cannot be held back; none may start after it"])
    # quick: 2 statements over 3 files (all 5 kinds) and 3 statements over 3 files (explicit / order-only);
    # thorough: the same over 4 files (4.7 M invocations for the 2-statement family)
    nf = 4 if thorough else 3
    jobs = [(p, common.NCPU, 2, ['-', 'e', 'i', 'o', 'v'], nf) for p in range(common.NCPU)]
    jobs += [(p, common.NCPU, 3, ['-', 'e', 'o'], 3) for p in range(common.NCPU)]
    replay_regressions(ck)
    res = common.run_workers(enum_worker, jobs)
    ck.merge(res)
    ck.extra_cov['exhaustive_small_graphs'] = not res.failures
    ck.extra_cov['small_graph_invocations'] = res.evaluations
    r2 = common.run_workers(gen_worker, [(w, (6000 if thorough else 250)) for w in range(common.NCPU)] +
                            [(w, (4000 if thorough else 200), 'dyndep') for w in range(common.NCPU)] +
                            [(w, (1500 if thorough else 80), 'chain') for w in range(common.NCPU)])
    ck.merge(r2)
    for f in res.failures + r2.failures:
        if f.get('harness_error'):
            continue
        fails = sum(1 for _ in range(3) if replay_case(f['case']))
        if fails == 3:
            ck.violation(f['case'], f['why'])
        else:
            ck.res.notes.append("FLAKY %d/3: %s" % (fails, f['why'][:200]))
    for sig, n in r2.known_hits.items():
        e = ck.known.listed(PROP, sig)
        if e:
            ck.known_finding(sig, "%s [%s] (%d generated cases)" % (e['title'], sig, n))
    return ck.finish()


def replay(path):
    j = json.load(open(path))
    why = replay_case(j.get('case', j))
    if why:
        print("finding:", why)
        print("VIOLATION property=%s replay=%s" % (PROP, path))
        return 1
    print("replay: no violation")
    return 0
