"""Content-hashed, incremental build of ninja's sources (from $VERIF_REPO's *working tree*) plus the
verification harness programs under /verif/cxx.

Variants
  san   clang++ -O1 ASan+UBSan, asserts on, -DNINJA_VERIF=1           -> probe, enumerators, ninja_san
  fuzz  san + -fsanitize=fuzzer-no-link                               -> libFuzzer targets
  rel   g++ -O2 -DNDEBUG -DNINJA_VERIF=1 (production flags + inert hooks) -> ninja_rel for the E2E engine
  fast  g++ -O2, asserts on, no sanitizers                                 -> probe for the bulk of the semantic campaigns

Every artefact lives in /verif/.build/<variant>-<key>/ where key = sha256(all src files + flags); stale
directories are removed, so a check always runs code compiled from the tree as it is *now*.
"""
import fcntl, glob, hashlib, os, shutil, subprocess, sys, time
from concurrent.futures import ThreadPoolExecutor

VERIF = os.path.dirname(os.path.dirname(os.path.abspath(__file__)))
BUILD = os.path.join(VERIF, ".build")
CXX = os.path.join(VERIF, "cxx")
GUARD = "NINJA_VERIF"


def repo():
    return os.environ.get("VERIF_REPO", "/repo")


LIB_EXCLUDE_SUFFIX = ("_test.cc", "_perftest.cc", "-win32.cc", ".in.cc")
LIB_EXCLUDE = {"ninja.cc", "ninja_test.cc", "test.cc", "browse.cc", "hash_collision_bench.cc",
               "msvc_helper_main-win32.cc"}

COMMON = ["-std=gnu++17", "-DUSE_PPOLL=1", "-D%s=1" % GUARD, "-Wno-deprecated", "-w"]
VARIANTS = {
    "san": dict(cxx="clang++", flags=["-g", "-O1", "-fno-omit-frame-pointer", "-fsanitize=address,undefined",
                                      "-fno-sanitize-recover=undefined"]),
    "fuzz": dict(cxx="clang++", flags=["-g", "-O1", "-fno-omit-frame-pointer",
                                       "-fsanitize=fuzzer-no-link,address,undefined",
                                       "-fno-sanitize-recover=undefined"]),
    "rel": dict(cxx="g++", flags=["-O2", "-DNDEBUG"]),
    # asserts on, no sanitizers: the workhorse for the semantic campaigns (6x faster than san per SIM invocation)
    "fast": dict(cxx="g++", flags=["-O2"]),
}


def lib_sources():
    out = []
    for p in sorted(glob.glob(os.path.join(repo(), "src", "*.cc"))):
        b = os.path.basename(p)
        if b in LIB_EXCLUDE or b.endswith(LIB_EXCLUDE_SUFFIX):
            continue
        out.append(p)
    return out


def _sha(paths, extra=""):
    h = hashlib.sha256(extra.encode())
    for p in sorted(paths):
        h.update(os.path.basename(p).encode() + b"\0")
        with open(p, "rb") as f:
            h.update(f.read())
        h.update(b"\0")
    return h.hexdigest()[:16]


def src_key(variant):
    files = glob.glob(os.path.join(repo(), "src", "*.cc")) + glob.glob(os.path.join(repo(), "src", "*.h")) + \
        glob.glob(os.path.join(repo(), "src", "*.c"))
    v = VARIANTS[variant]
    return _sha(files, extra=v["cxx"] + " ".join(v["flags"] + COMMON))


class Lock:
    def __enter__(self):
        os.makedirs(BUILD, exist_ok=True)
        self.f = open(os.path.join(BUILD, "lock"), "w")
        fcntl.flock(self.f, fcntl.LOCK_EX)
        return self

    def __exit__(self, *a):
        fcntl.flock(self.f, fcntl.LOCK_UN)
        self.f.close()


def _run(cmd):
    p = subprocess.run(cmd, capture_output=True, text=True)
    if p.returncode != 0:
        raise BuildError("build failed: %s\n%s" % (" ".join(cmd), p.stderr[-6000:]))


class BuildError(Exception):
    pass


def variant_dir(variant):
    """Build (if needed) the ninja objects for `variant`; returns the directory containing libninja.a"""
    key = src_key(variant)
    d = os.path.join(BUILD, "%s-%s" % (variant, key))
    with Lock():
        if os.path.exists(os.path.join(d, "libninja.a")):
            os.utime(d)
            return d
        # bound disk use: keep the two most recently used builds of this variant besides the new one
        olds = sorted([o for o in glob.glob(os.path.join(BUILD, variant + "-*")) if o != d], key=os.path.getmtime, reverse=True)
        for old in olds[2:]:
            shutil.rmtree(old, ignore_errors=True)
        os.makedirs(os.path.join(d, "obj"), exist_ok=True)
        v = VARIANTS[variant]
        srcs = lib_sources()
        jobs = []
        for s in srcs + [os.path.join(repo(), "src", "ninja.cc")]:
            o = os.path.join(d, "obj", os.path.basename(s)[:-3] + ".o")
            jobs.append(([v["cxx"]] + v["flags"] + COMMON + ["-iquote", os.path.join(repo(), "src"), "-c", s, "-o", o], o))
        with ThreadPoolExecutor(max_workers=os.cpu_count() or 4) as ex:
            list(ex.map(lambda j: _run(j[0]), jobs))
        objs = [o for _, o in jobs if not o.endswith("/ninja.o")]
        tmp = os.path.join(d, "libninja.a.tmp")
        if os.path.exists(tmp):
            os.unlink(tmp)
        _run(["ar", "rcs", tmp] + objs)
        os.rename(tmp, os.path.join(d, "libninja.a"))
        return d


def ninja_binary(variant="rel"):
    d = variant_dir(variant)
    out = os.path.join(d, "ninja")
    with Lock():
        if not os.path.exists(out):
            v = VARIANTS[variant]
            flags = [f for f in v["flags"] if not f.startswith("-fsanitize=fuzzer")]
            _run([v["cxx"]] + flags + [os.path.join(d, "obj", "ninja.o"), os.path.join(d, "libninja.a"), "-o", out + ".tmp"])
            os.rename(out + ".tmp", out)
    return out


def program(name, variant="san", extra_flags=(), fuzzer=False, sources=None):
    """Build /verif/cxx/<name>.cc (+ sources) against libninja of `variant`. Returns the binary path."""
    d = variant_dir(variant)
    srcs = [os.path.join(CXX, name + ".cc")] + [os.path.join(CXX, s) for s in (sources or [])]
    hdrs = glob.glob(os.path.join(CXX, "*.h"))
    key = _sha(srcs + hdrs, extra=" ".join(extra_flags) + str(fuzzer))
    tag = name + ("+" + "+".join(os.path.basename(x)[:-3] for x in (sources or [])) if sources else "")
    out = os.path.join(d, "%s-%s" % (tag, key))
    with Lock():
        if os.path.exists(out):
            return out
        for old in glob.glob(os.path.join(d, tag + "-*")):
            if os.path.basename(old).rsplit("-", 1)[0] == tag:
                os.unlink(old)
        v = VARIANTS[variant]
        flags = list(v["flags"])
        if fuzzer:
            flags = [f.replace("fuzzer-no-link", "fuzzer") for f in flags]
        cmd = [v["cxx"]] + flags + COMMON + list(extra_flags) + ["-iquote", os.path.join(repo(), "src"), "-I", CXX] + srcs + \
            [os.path.join(d, "libninja.a"), "-o", out + ".tmp"]
        _run(cmd)
        os.rename(out + ".tmp", out)
    return out


def c_tool(name, flags=()):
    """Plain C/C++ helper that does not link ninja (vtool, argdump, shims)."""
    src = os.path.join(CXX, name + (".c" if os.path.exists(os.path.join(CXX, name + ".c")) else ".cc"))
    key = _sha([src], extra=" ".join(flags))
    d = os.path.join(BUILD, "tools")
    out = os.path.join(d, "%s-%s" % (name, key))
    with Lock():
        os.makedirs(d, exist_ok=True)
        if os.path.exists(out):
            return out
        for old in glob.glob(os.path.join(d, name + "-*")):
            if os.path.basename(old).rsplit("-", 1)[0] == name:
                os.unlink(old)
        cc = "gcc" if src.endswith(".c") else "g++"
        _run([cc, "-O1", "-g"] + list(flags) + [src, "-o", out + ".tmp"])
        os.rename(out + ".tmp", out)
    return out


def warm():
    t = time.time()
    with ThreadPoolExecutor(max_workers=3) as ex:
        list(ex.map(variant_dir, ["san", "fuzz", "rel", "fast"]))
    ninja_binary("rel")
    print("build cache warm in %.1fs: %s" % (time.time() - t, BUILD))


if __name__ == "__main__":
    if len(sys.argv) > 1 and sys.argv[1] == "warm":
        warm()
