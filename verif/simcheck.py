"""Hypothesis-driven campaigns over the SIM engine, shared by the properties decided through it."""
import copy, json, os, sys, traceback
from hypothesis import given, settings, seed as hseed, HealthCheck, Phase, Verbosity, strategies as st
from . import common, graphs, models, simrun
from .probe import Probe


class Falsified(Exception):
    pass


def graph_features(g):
    f = set()
    for e in g['edges']:
        if e['phony']:
            f.add('phony' if (e['exp'] or e['imp'] or e['oo']) else 'phony_noinputs')
        if e['restat'] or e.get('dd_restat'):
            f.add('restat')
        if e['generator']:
            f.add('generator')
        if e['deps']:
            f.add('deps_' + e['deps'])
        if e.get('hidden'):
            f.add('hidden')
            if any(not h.startswith('s') for h in e['hidden']):
                f.add('hidden_generated')
        if len(e['outs']) > 1:
            f.add('multi_out')
        if e.get('iouts'):
            f.add('implicit_out')
        if e.get('vals'):
            f.add('validation')
        if e.get('pool'):
            f.add('pool_console' if e['pool'] == 'console' else 'pool')
        if e.get('rsp') is not None:
            f.add('rsp')
        if e['oo']:
            f.add('order_only')
        if e.get('dd'):
            f.add('dyndep')
    return f


def run_case(probe, g, ops, props, runner=None):
    """returns (findings relevant to props, sim). probe: a Probe (SIM engine) or ('e2e', scratch root) for the real binary"""
    if isinstance(probe, tuple):
        from . import e2e
        sim = e2e.RealSim(probe[1], g)
    else:
        sim = simrun.Sim(probe, g)
    try:
        if runner:
            runner(sim, ops)
        else:
            sim.run(ops)
    finally:
        sim.close()
    return [f for f in sim.findings if f['prop'] in props], sim


def worker(prop, props, widx, n_examples, max_edges, max_ops, features, nontrivial_fn, with_failures, runner_name, backend='sim'):
    if backend == 'e2e':
        return e2e_worker(prop, props, widx, n_examples, max_edges, max_ops, features, nontrivial_fn, with_failures, runner_name)
    res = common.Result()
    known = common.Known()
    state = {'fail': None}
    budget = common.ShrinkBudget()
    runner = RUNNERS.get(runner_name)
    with Probe("fast") as pfast, Probe("san") as psan:
        @hseed(common.sub_seed(prop, widx))
        @settings(max_examples=n_examples, deadline=None, database=None, suppress_health_check=list(HealthCheck),
                  phases=[Phase.generate, Phase.shrink], verbosity=Verbosity.quiet, report_multiple_bugs=False)
        @given(graphs.graphs(max_edges=max_edges, features=features), graphs.histories(max_ops=max_ops, with_failures=with_failures))
        def test(g, ops):
            # every 6th case (chosen by the hash of the case, so a pure function of it) runs under ASan/UBSan
            dg = common.digest(dict(g=g, ops=ops))
            if budget.skip(dg):
                return
            san = int(dg, 16) % 6 == 0
            res.extra['cases_under_sanitizers'] += 1 if san else 0
            findings, sim = run_case(psan if san else pfast, g, ops, props, runner)
            feats = graph_features(g)
            classes = ['g:' + x for x in feats] + ['h:' + x for x in sim.labels]
            nt = nontrivial_fn(g, ops, sim, feats)
            res.case(dict(g=g, ops=ops), nt, classes,
                     sample=dict(manifest=graphs.manifest(g), ops=ops[:6]) if nt else None)
            res.extra['invocations'] += sim.stats['invocations']
            for sk in ('schedules', 'distinct_orders', 'graphs_exhausted'):
                if sim.stats.get(sk):
                    res.extra[sk] += sim.stats[sk]
            for f in findings:
                if f['known'] and all(known.listed(f['prop'], s_) for s_ in f['known'].split('+')):
                    for s_ in f['known'].split('+'):
                        res.known_hits[s_] += 1
                    continue
                state['fail'] = (dict(g=g, ops=ops, runner=runner_name),
                                 "%s: %s %s" % (f['prop'], f['kind'], json.dumps(f['detail'], default=repr)[:1500]))
                budget.failed(dg)
                raise Falsified(f['kind'])
        common.run_hypothesis(test, state, res)
    return res


def e2e_worker(prop, props, widx, n_examples, max_edges, max_ops, features, nontrivial_fn, with_failures, runner_name):
    """the same campaign through the real binary in a real directory (fewer, slower cases)"""
    import shutil
    res = common.Result()
    known = common.Known()
    state = {'fail': None}
    budget = common.ShrinkBudget()
    runner = RUNNERS.get(runner_name)
    root = common.scratch_root()
    try:
        @hseed(common.sub_seed(prop, 'e2e', widx))
        @settings(max_examples=n_examples, deadline=None, database=None, suppress_health_check=list(HealthCheck),
                  phases=[Phase.generate, Phase.shrink], verbosity=Verbosity.quiet, report_multiple_bugs=False)
        @given(graphs.graphs(max_edges=max_edges, features=features), graphs.histories(max_ops=max_ops, with_failures=with_failures))
        def test(g, ops):
            dg = common.digest(dict(g=g, ops=ops))
            if budget.skip(dg):
                return
            findings, sim = run_case(('e2e', root), g, ops, props, runner)
            feats = graph_features(g)
            nt = nontrivial_fn(g, ops, sim, feats)
            res.case(dict(g=g, ops=ops, e2e=True), nt, ['e2e:' + x for x in sim.labels],
                     sample=dict(engine='e2e', manifest=graphs.real_manifest(g, 'vtool')[-700:], ops=ops[:5]) if nt and len(res.samples) < 2 else None)
            res.extra['e2e_cases'] += 1
            res.extra['e2e_invocations'] += sim.stats['invocations']
            for f in findings:
                if f['known'] and all(known.listed(f['prop'], s_) for s_ in f['known'].split('+')):
                    for s_ in f['known'].split('+'):
                        res.known_hits[s_] += 1
                    continue
                state['fail'] = (dict(g=g, ops=ops, runner=runner_name, backend='e2e'),
                                 "[real binary] %s: %s %s" % (f['prop'], f['kind'], json.dumps(f['detail'], default=repr)[:1500]))
                budget.failed(dg)
                raise Falsified(f['kind'])
        common.run_hypothesis(test, state, res)
    finally:
        shutil.rmtree(root, ignore_errors=True)
    return res


def replay_case(case, props, times=3):
    """plain re-execution, bypassing Hypothesis; returns list of findings lists"""
    out = []
    runner = RUNNERS.get(case.get('runner'))
    if case.get('backend') == 'e2e':
        import shutil
        root = common.scratch_root()
        try:
            for _ in range(times):
                findings, sim = run_case(('e2e', root), copy.deepcopy(case['g']), copy.deepcopy(case['ops']), props, runner)
                out.append(findings)
        finally:
            shutil.rmtree(root, ignore_errors=True)
        return out
    with Probe("san") as probe:
        for _ in range(times):
            findings, sim = run_case(probe, copy.deepcopy(case['g']), copy.deepcopy(case['ops']), props, runner)
            out.append(findings)
    return out


def campaign(ck, props, n_examples, max_edges=8, max_ops=8, features=None, nontrivial_fn=None, with_failures=True,
             runner_name=None, workers=None, backend='sim'):
    workers = workers or common.NCPU
    per = max(1, n_examples // workers)
    nontrivial_fn = nontrivial_fn or (lambda g, ops, sim, feats: sim.stats['builds'] > 0)
    res = common.run_workers(worker, [(ck.prop, props, w, per, max_edges, max_ops, features, nontrivial_fn, with_failures, runner_name, backend)
                                      for w in range(workers)])
    ck.merge(res)
    known = ck.known
    for f in res.failures:
        if f.get('harness_error'):
            continue
        # replay 3x outside Hypothesis before believing it
        reps = replay_case(f['case'], props)
        unknown = [[x for x in r if not (x['known'] and all(known.listed(x['prop'], s_) for s_ in x['known'].split('+')))] for r in reps]
        if all(unknown):
            ck.violation(f['case'], f['why'])
        else:
            ck.res.notes.append("FLAKY: shrunk case failed only %d/3 replays: %s" % (sum(1 for u in unknown if u), f['why'][:300]))
            ck.res.extra['flaky'] += 1
    for sig, n in res.known_hits.items():
        e = known.listed(ck.prop, sig)
        if e:
            ck.known_finding(sig, "%s [%s] (%d generated cases attributed by the counterfactual model)" % (e['title'], sig, n))
    return res


def replay_file(path, prop, props):
    j = json.load(open(path))
    case = j.get('case', j)
    reps = replay_case(case, props)
    known = common.Known()
    bad = [[x for x in r if not (x['known'] and all(known.listed(x['prop'], s_) for s_ in x['known'].split('+')))] for r in reps]
    for r in bad[:1]:
        for x in r:
            print("finding:", x['prop'], x['kind'], json.dumps(x['detail'], default=repr)[:2000])
    if all(bad):
        print("VIOLATION property=%s replay=%s" % (prop, path))
        return 1
    print("replay: no violation (%d/3 runs failed)" % sum(1 for b in bad if b))
    return 0


RUNNERS = {'all_schedules': lambda sim, ops: simrun.run_all_schedules(sim, ops),
           'metamorphic': lambda sim, ops: simrun.run_metamorphic(sim, ops),
           'dyndep_inline': lambda sim, ops: simrun.run_metamorphic(sim, ops, simrun.to_inlined, 'C11', 'inlined-manifest')}
