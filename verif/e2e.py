"""E2E engine: the same graphs, histories, reference models and oracles as the SIM engine, but every invocation is
the real ninja binary (built from /repo's working tree) in a real directory, running the vtool helper as its
commands.  Covers what only ninja.cc, RealCommandRunner, SubprocessSet, RealDiskInterface and the kernel can show."""
import json, os, shutil, subprocess, tempfile, time
from . import build, common, graphs, models, simrun
from .models import key, all_outs
from .probe import ProbeDied

GAP = 0.012     # seconds between events that must get distinct, ordered timestamps


def session_pids(sid):
    out = []
    for d in os.listdir("/proc"):
        if not d.isdigit():
            continue
        try:
            f = open("/proc/%s/stat" % d).read().rsplit(")", 1)[1].split()
        except (OSError, IndexError):
            continue
        if f[0] != 'Z' and int(f[3]) == sid:
            out.append(int(d))
    return out


def kill_session(sid):
    """SIGKILL every process of the session until none is left (children may fork while we look)"""
    import signal
    for _ in range(50):
        pids = session_pids(sid)
        if not pids:
            return
        for pid in pids:
            try:
                os.kill(pid, signal.SIGKILL)
            except OSError:
                pass
        time.sleep(0.005)


# the regeneration command can be made slow or made to fail through the environment (so that its text never changes)
REGEN_RULE = ("rule regen\n  command = sleep $${VERIF_REGEN_SLEEP:-0}; if [ -n \"$$VERIF_REGEN_FAIL\" ]; then exit $$VERIF_REGEN_FAIL; fi; "
              "cp build.ninja.in build.ninja\n  generator = 1\n  description = REGEN\nbuild build.ninja: regen build.ninja.in\n")


class FakeProbe:
    """directory provider with the interface Sim expects from a probe"""

    def __init__(self, root):
        self.root = root
        self.n = 0

    def newdir(self):
        # a fresh name every time: a directory a straggler process wrote into after its removal must not collide
        return tempfile.mkdtemp(prefix="p", dir=self.root)

    def rmdir(self, d):
        shutil.rmtree(d, ignore_errors=True)


class RealSim(simrun.Sim):
    def __init__(self, root, g, ninja=None, variant="rel", regen=False):
        self.regen = regen
        self.ninja = ninja or build.ninja_binary(variant)
        self.vtool = build.c_tool("vtool")
        self.extra_env = {}
        self.extra_args = []
        self.last_output = ""
        simrun.Sim.__init__(self, FakeProbe(root), g)

    # ---- backend
    def setup_backend(self):
        self.dir = self.logdir            # ninja's working directory holds sources, outputs and both logs
        self.trace_path = os.path.join(self.dir, ".verif_trace")
        self.model.cmdsig = lambda g, e: e['variant'] + "|" + graphs.real_args(g, e) + ("|" + models.rsp_content(g, e) if e.get('rsp') is not None else "")

    def path(self, p):
        return os.path.join(self.dir, p)

    def stat_into(self, p):
        try:
            st = os.stat(self.path(p))
            self.files[p] = {'c': open(self.path(p), "r", errors="replace").read(), 'm': st.st_mtime_ns}
        except FileNotFoundError:
            self.files.pop(p, None)

    def write(self, p, content):
        time.sleep(GAP)
        os.makedirs(os.path.dirname(self.path(p)) or self.dir, exist_ok=True)
        with open(self.path(p), "w") as f:
            f.write(content)
        self.stat_into(p)
        time.sleep(GAP)

    def touch(self, p):
        if os.path.exists(self.path(p)):
            time.sleep(GAP)
            os.utime(self.path(p), None)
            self.stat_into(p)
            time.sleep(GAP)

    def delete(self, p):
        try:
            os.unlink(self.path(p))
        except FileNotFoundError:
            pass
        self.files.pop(p, None)

    def scan_dir(self):
        files, dirs = {}, []
        for base, dnames, fnames in os.walk(self.dir):
            rel = os.path.relpath(base, self.dir)
            if rel != ".":
                dirs.append(rel)
            for fn in fnames:
                p = fn if rel == "." else os.path.join(rel, fn)
                if p in ("build.ninja", "build.ninja.in", ".verif_trace", ".ninja_log", ".ninja_deps", ".ninja_lock") or ".vtmp" in p:
                    continue
                try:
                    st = os.stat(os.path.join(base, fn))
                except OSError:
                    st = os.lstat(os.path.join(base, fn))      # a dangling or self-referencing link (injected fault)
                try:
                    c = open(os.path.join(base, fn), "r", errors="replace").read()
                except OSError:
                    c = ""
                files[p] = {'c': c, 'm': st.st_mtime_ns}
        return files, dirs

    def read_log(self):
        log = {}
        try:
            for l in open(self.path(".ninja_log"), "rb").read().split(b"\n")[1:]:
                f = l.split(b"\t")
                if len(f) >= 5:
                    log[f[3].decode("utf-8", "replace")] = dict(mtime=int(f[2]), hash=f[4].decode(), start=int(f[0]), end=int(f[1]))
        except (FileNotFoundError, ValueError):
            pass
        return log

    def read_deps(self):
        deps = {}
        p = subprocess.run([self.ninja, "-t", "deps"], cwd=self.dir, capture_output=True, text=True, errors="replace")
        cur = None
        for l in p.stdout.splitlines():
            if l and not l.startswith(" "):
                name, _, rest = l.partition(": #deps")
                m = rest.split("deps mtime ")
                try:
                    mt = int(m[1].split()[0]) if len(m) > 1 else 0
                except ValueError:
                    mt = 0
                cur = name
                deps[cur] = dict(mtime=mt, ins=[])
            elif l.strip() and cur is not None:
                deps[cur]['ins'].append(l.strip())
        return deps

    def execute(self, req):
        g = self.g
        text = graphs.real_manifest(self.manifest_graph(req), self.vtool)
        mp = self.path("build.ninja")
        regen_now = False
        if getattr(self, 'regen', False):
            # the manifest is itself a build product: ninja regenerates it from build.ninja.in (RebuildManifest + reload)
            text += REGEN_RULE
            ip = self.path("build.ninja.in")
            if not os.path.exists(ip) or open(ip).read() != text:
                time.sleep(GAP)
                with open(ip, "w") as f:
                    f.write(text)
                time.sleep(GAP)
                regen_now = os.path.exists(mp)
                self.labels.add('manifest_regenerated_by_ninja')
            if not os.path.exists(mp):
                with open(mp, "w") as f:
                    f.write(text)
        elif not os.path.exists(mp) or open(mp).read() != text:
            with open(mp, "w") as f:
                f.write(text)
        try:
            os.unlink(self.trace_path)
        except FileNotFoundError:
            pass
        faults = []
        for k_, spec in req['edges'].items():
            if spec.get('fail'):
                faults.append("%s:%d:%d" % (k_, spec['fail'], 1 if spec.get('fail_touch') else 0))
        env = dict(os.environ, VERIF_TRACE=self.trace_path, TERM="dumb")
        env.pop("NINJA_STATUS", None)
        env.pop("MAKEFLAGS", None)
        if faults:
            env["VERIF_FAULTS"] = ",".join(faults)
        env.update(self.extra_env)
        log_before = self.read_log()       # what the log held before this invocation (exact, unlike the model's timestamps)
        k = req.get('k', 1)
        jflag = [] if getattr(self, 'omit_j', False) else ["-j", str(req.get('j', 1))]    # an explicit -j disables the jobserver client
        cmd = [self.ninja] + jflag + ["-k", str(k if k > 0 else 0)] + self.extra_args + list(req['targets'])
        time.sleep(GAP)
        # own session: on a timeout everything ninja started can be found and killed; a build of these sizes takes well
        # under a second, so not terminating within the limit is a result (hang or livelock), not a harness problem
        limit = getattr(self, 'time_limit', 120)
        if regen_now and faults and not getattr(self, 'no_regen_fault', False):
            # the command that regenerates the manifest fails first (with the exit code of the first injected fault): ninja
            # must stop with that status before it runs anything; then the invocation is repeated without that fault
            code = int(faults[0].split(":")[1])
            pf = subprocess.run(cmd, cwd=self.dir, env=dict(env, VERIF_REGEN_FAIL=str(code)), stdout=subprocess.PIPE, stderr=subprocess.STDOUT, timeout=limit)
            self.labels.add('manifest_regeneration_failed')
            ran = os.path.exists(self.trace_path) and open(self.trace_path).read().strip() != ""
            if pf.returncode != code or ran:
                self.add('C05', 'the command regenerating the manifest failed with exit code %d: ninja exited with %d%s' % (
                    code, pf.returncode, ' and ran build commands' if ran else ''), dict(output=pf.stdout[-300:].decode('utf-8', 'replace')))
            time.sleep(GAP)
        pp = subprocess.Popen(cmd, cwd=self.dir, env=env, stdout=subprocess.PIPE, stderr=subprocess.PIPE, start_new_session=True)
        try:
            so, se = pp.communicate(timeout=limit)
        except subprocess.TimeoutExpired:
            state = ""
            try:
                state = open("/proc/%d/stat" % pp.pid).read().rsplit(")", 1)[1].split()[0]
            except (OSError, IndexError):
                pass
            kill_session(pp.pid)
            try:
                so, se = pp.communicate(timeout=10)
            except subprocess.TimeoutExpired:
                so, se = b"", b""
            raise ProbeDied({"timeout": True, "seconds": limit, "state_when_killed": state},
                            "ninja did not terminate: " + " ".join(cmd[1:]) + "\n" + (so + se).decode("utf-8", "replace")[-600:], [])

        class _P:
            pass
        p = _P()
        p.returncode, p.stdout, p.stderr = pp.returncode, so, se
        out = (p.stdout + p.stderr).decode("utf-8", "replace")
        self.last_output = out
        if p.returncode < 0 or p.returncode in (134, 139):
            raise ProbeDied({"signal": -p.returncode} if p.returncode < 0 else {"exit": p.returncode}, out, [])
        time.sleep(GAP)
        evs = []
        try:
            for l in open(self.trace_path):
                try:
                    evs.append(json.loads(l))
                except ValueError:
                    pass
        except FileNotFoundError:
            pass
        evs.sort(key=lambda e: e['t'])
        trace, running = [], []
        for i, e in enumerate(evs):
            if e['ev'] == 'start':
                rsp = bytes.fromhex(e['rsp']).decode("utf-8", "replace") if e.get('rsp_exists') else None
                trace.append(dict(ev='start', seq=i, t=e['t'], edge=e['edge'], running=list(running), lock_mtime=e['lock_mtime'], dirs_ok={'all': e['dirs_ok']},
                                  rspfile=rsp, n=len([x for x in trace if x['ev'] == 'start']), argv=[bytes.fromhex(a).decode("utf-8", "replace") for a in e['argv']]))
                running.append(e['edge'])
            else:
                if e['edge'] in running:
                    running.remove(e['edge'])
                trace.append(dict(ev='finish', seq=i, t=e['t'], edge=e['edge'], status=e['status'], wrote=e['wrote']))
        files, dirs = self.scan_dir()
        res = dict(phase='uptodate' if "ninja: no work to do." in out else 'build', status=p.returncode, err=out, trace=trace, files=files, dirs=dirs, now=0,
                   warnings=[], crashed=False, log=self.read_log(), deps=self.read_deps(), stdout=p.stdout.decode("utf-8", "replace"),
                   log_before=log_before)
        return res

    def manifest_graph(self, req):
        return self._gm

    def request(self, targets, j=1, k=1, sched=(), faults=None, extra=None, establishing=False):
        import copy
        gm = self.g
        if establishing:
            gm = copy.deepcopy(self.g)
            for e in gm['edges']:
                e['vals'] = []
        self._gm = gm
        return dict(targets=targets, j=j, k=k, edges=graphs.sim_edges(self.g, faults))

    def close(self):
        shutil.rmtree(self.dir, ignore_errors=True)
