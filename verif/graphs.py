"""Hypothesis generators for build graphs and histories, manifest rendering, SIM edge specs."""
from hypothesis import strategies as st
from . import models
from .models import key, all_outs

# ---------------------------------------------------------------------------------------------- graphs


@st.composite
def graphs(draw, max_edges=8, features=None):
    """Layered DAG by construction. `features` switches classes on/off (all on by default)."""
    f = dict(phony=True, restat=True, generator=True, deps=True, hidden_generated=True, multi_out=True,
             implicit_out=True, validations=True, pools=True, rsp=True, subdirs=True, unordered_hidden=True, dyndep=False, dd_validation=True)
    f.update(features or {})
    nsrc = draw(st.integers(1, 4))
    srcs = ["s%d" % i for i in range(nsrc)]
    avail = list(srcs)
    edges = []
    pools = {}
    if f['pools'] and draw(st.integers(0, 2)) == 2:
        pools['p1'] = draw(st.integers(1, 2))
        if draw(st.booleans()):
            pools['p2'] = draw(st.integers(1, 3))
    nedges = draw(st.integers(1, max_edges))
    for ei in range(nedges):
        phony = f['phony'] and draw(st.integers(0, 5)) == 5
        sub = "d%d/" % (ei % 2) if (f['subdirs'] and draw(st.integers(0, 5)) == 5) else ""
        if phony:
            outs = ["ph%d" % ei]
        else:
            outs = [sub + "o%d" % ei]
            if f['multi_out'] and draw(st.integers(0, 4)) == 4:
                outs.append(sub + "o%db" % ei)
        iouts = [sub + "io%d" % ei] if (not phony and f['implicit_out'] and draw(st.integers(0, 6)) == 6) else []

        def pick(pool_, lo, hi):
            if not pool_:
                return []
            return draw(st.lists(st.sampled_from(pool_), min_size=min(lo, len(pool_)), max_size=hi, unique=True))

        only_oo = phony and draw(st.integers(0, 3)) == 3      # 'build hdrs: phony || h1 h2' (order-depends alias)
        exp = [] if only_oo else pick(avail, 0 if (phony and draw(st.integers(0, 4)) == 4) else 1, 3)
        rest = [a for a in avail if a not in exp]
        imp = pick(rest, 0, 2) if (not only_oo and draw(st.integers(0, 2)) == 2) else []
        rest = [a for a in rest if a not in imp]
        oo = pick(rest, 1 if only_oo else 0, 3) if (only_oo or draw(st.integers(0, 2)) == 2) else []
        rest = [a for a in rest if a not in oo]
        e = dict(outs=outs, iouts=iouts, phony=phony, exp=exp, imp=imp, oo=oo, vals=[], restat=False, generator=False,
                 deps='', hidden=[], variant='v0', pool='', rsp=None, dd=None, depfile_layout=0)
        if not phony:
            e['restat'] = f['restat'] and draw(st.integers(0, 3)) == 3
            e['generator'] = f['generator'] and draw(st.integers(0, 9)) == 9
            if f['deps']:
                if len(outs) + len(iouts) == 1:
                    e['deps'] = draw(st.sampled_from(['', 'gcc', 'depfile', 'msvc', '', 'gcc']))
                else:
                    e['deps'] = draw(st.sampled_from(['', '', 'depfile', 'gcc']))
            if e['deps']:
                cand = [a for a in rest if not a.startswith('ph') and (f['hidden_generated'] or a.startswith('s'))]
                e['hidden'] = pick(cand, 0, 2)
                e['depfile_layout'] = draw(st.integers(0, 3))
                # how the "compiler" spells each hidden read in its depfile: canonical, or as -Iinc/.. style paths do
                e['spell'] = draw(st.integers(0, 3))
                if e['deps'] != 'msvc' and len(outs) + len(iouts) > 1 and draw(st.integers(0, 1)) == 1:
                    e['df_targets'] = True      # the depfile names every output of the statement as a target, spelled like the reads
                if e['deps'] != 'msvc' and f.get('depfile_dirs', True) and draw(st.integers(0, 3)) == 3:
                    # depfile in a directory that holds no output: a tree of its own, or a sub-directory of the output's
                    e['dfdir'] = "dep%d/" % (ei % 2) if draw(st.booleans()) else 'nested'
                # a generated hidden read normally has an order-only manifest path to its producer (the
                # documented practice); sometimes it has none at all (the D2 / missingdeps shape)
                for h in e['hidden']:
                    if not h.startswith('s') and not (f['unordered_hidden'] and draw(st.integers(0, 3)) == 3):
                        if h not in e['oo']:
                            e['oo'].append(h)
            if pools and draw(st.integers(0, 1)) == 1:
                e['pool'] = draw(st.sampled_from(sorted(pools)))
            elif f['pools'] and draw(st.integers(0, 11)) == 11 and e['deps'] != 'msvc':
                # (not with deps=msvc: a console command's output is not captured, so its /showIncludes notes could never
                # be extracted - such a manifest cannot report its hidden reads)
                e['pool'] = 'console'
            if f['rsp'] and draw(st.integers(0, 6)) == 6:
                e['rsp'] = 'r0'
        if (not phony and not e['restat'] and not e['generator'] and not e['deps'] and not e['pool'] and e['rsp'] is None
                and draw(st.integers(0, 4)) == 4):
            e['bare'] = True     # no indented bindings at all: everything comes from a rule of its own
        if f['validations'] and edges and draw(st.integers(0, 6)) == 6:
            # validation: any earlier output, or (added later) an output that depends on this one
            e['vals'] = [draw(st.sampled_from([o for x in edges for o in all_outs(x)]))]
        edges.append(e)
        avail.extend(outs + iouts)
    # validations pointing *forward* (validation target depends on the statement that requests it)
    if f['validations'] and len(edges) >= 2 and draw(st.integers(0, 5)) == 5:
        i = draw(st.integers(0, len(edges) - 2))
        later = [x for x in edges[i + 1:] if not x['phony']]
        if later:
            v = draw(st.sampled_from(later))
            edges[i]['vals'] = edges[i]['vals'] + [key(v)]
    # a chain of phony aliases below the output of a restat statement, consumed by one more command: when the restat
    # command reproduces its output the whole chain is pruned from the plan while other commands are still pending
    if f['phony'] and f['restat'] and f.get('phony_chain', True) and draw(st.integers(0, 5)) == 5:
        cand = [e for e in edges if e['restat'] and not e['phony']]
        if cand:
            r = cand[draw(st.integers(0, len(cand) - 1))]
            prev = r['outs'][0]
            for ci in range(draw(st.integers(1, 3))):
                nm = "phc%d" % ci
                edges.append(dict(outs=[nm], iouts=[], phony=True, exp=[prev], imp=[], oo=[], vals=[], restat=False, generator=False, deps='',
                                  hidden=[], variant='v0', pool='', rsp=None, dd=None, depfile_layout=0))
                prev = nm
            edges.append(dict(outs=['ochain'], iouts=[], phony=False, exp=[prev], imp=[], oo=[], vals=[], restat=False, generator=False, deps='',
                              hidden=[], variant='v0', pool='', rsp=None, dd=None, depfile_layout=0))
    # an alias over the outputs of two different commands, and a command that consumes the alias: the alias itself never
    # runs, yet its consumer must wait for *both* producers (in any completion order)
    if f['phony'] and f.get('alias_join', True) and draw(st.integers(0, 5)) == 5:
        prods = [e for e in edges if not e['phony']]
        if len(prods) >= 2:
            i1 = draw(st.integers(0, len(prods) - 1))
            i2 = draw(st.integers(0, len(prods) - 2))
            if i2 >= i1:
                i2 += 1
            a_, b_ = prods[i1]['outs'][0], prods[i2]['outs'][0]
            kind = draw(st.sampled_from(['exp', 'oo', 'mixed']))
            al = dict(outs=['phj'], iouts=[], phony=True, exp=[], imp=[], oo=[], vals=[], restat=False, generator=False, deps='',
                      hidden=[], variant='v0', pool='', rsp=None, dd=None, depfile_layout=0)
            if kind == 'exp':
                al['exp'] = [a_, b_]
            elif kind == 'oo':
                al['oo'] = [a_, b_]
            else:
                al['exp'], al['oo'] = [a_], [b_]
            edges.append(al)
            cj = dict(outs=['ojoin'], iouts=[], phony=False, exp=[srcs[0]], imp=[], oo=[], vals=[], restat=False, generator=False, deps='',
                      hidden=[], variant='v0', pool='', rsp=None, dd=None, depfile_layout=0)
            if draw(st.booleans()):
                cj['exp'] = ['phj']
            else:
                cj['oo'] = ['phj']
            edges.append(cj)
    g = dict(srcs=srcs, edges=edges, pools=pools)
    if f['dyndep'] is True or (f['dyndep'] == 'some' and draw(st.integers(0, 3)) == 3):
        add_dyndep(draw, g, f.get('dd_validation', True), f.get('dd_force_chain', False))
    return g


def add_dyndep(draw, g, f_dd_validation=True, force_chain=False):
    """binds 1-3 statements to a dyndep file (a source, or produced by a new first statement from a source): the file adds
    implicit inputs (sources / earlier outputs, incl. implicit outputs another bound statement gets from the same
    file), implicit outputs and restat"""
    edges = g['edges']
    cand = [i for i, e in enumerate(edges) if not e['phony'] and not e['generator']]
    if not cand:
        return
    ndd = 2 if force_chain else draw(st.integers(1, 2))
    g['dd_files'] = {}
    producers = []
    for d in range(ndd):
        dd = "dd%d" % d
        bound = draw(st.lists(st.sampled_from(cand), min_size=1, max_size=3, unique=True))
        bound = [i for i in sorted(bound) if not edges[i].get('dd')]
        if not bound:
            continue
        produced = True if force_chain else draw(st.booleans())
        g['dd_files'][dd] = dict(produced=produced)
        new_outs = []
        for i in bound:
            e = edges[i]
            earlier = list(g['srcs']) + [o for x in edges[:i] for o in all_outs(x) if not x['phony']] + new_outs
            earlier = [x for x in earlier if x not in e['exp'] + e['imp'] + e['oo'] + e.get('hidden', [])]
            e['dd'] = dd
            e['dd_ins'] = draw(st.lists(st.sampled_from(earlier), max_size=2, unique=True)) if earlier else []
            if draw(st.integers(0, 5)) == 5:
                e['dd_ins'].append(dd)      # the dyndep file names itself as an implicit input (as `| dd || dd` would in the manifest)
            e['dd_outs'] = ["ddo%d_%d" % (d, i)] if draw(st.integers(0, 1)) == 1 else []
            e['dd_restat'] = draw(st.integers(0, 3)) == 3
            e['dd_spell'] = draw(st.sampled_from([0, 0, 1, 2, 3]))    # how the dyndep file spells this statement's paths
            new_outs += e['dd_outs']
        if produced:
            src = "ddsrc%d" % d
            g['srcs'].append(src)
            pe = dict(outs=[dd], iouts=[], phony=False, exp=[src], imp=[], oo=[], vals=[], restat=draw(st.booleans()), generator=False,
                      deps='', hidden=[], variant='v0', pool='', rsp=None, dd=None, depfile_layout=0, is_dd_producer=True)
            producers.append(pe)
    # a dyndep-added input whose producer requests a validation that nothing else reaches and that is ready at once
    # (only source inputs): the validation enters the plan in the middle of the build when the file is loaded
    if f_dd_validation and g['dd_files'] and draw(st.integers(0, 2)) == 2:
        bound = [e for e in edges if e.get('dd')]
        e = bound[draw(st.integers(0, len(bound) - 1))]
        src = g['srcs'][draw(st.integers(0, len(g['srcs']) - 1))]
        def plain(out, vals):
            return dict(outs=[out], iouts=[], phony=False, exp=[src], imp=[], oo=[], vals=vals, restat=False, generator=False,
                        deps='', hidden=[], variant='v0', pool='', rsp=None, dd=None, depfile_layout=0)
        g['srcs'].append('sv')       # the validation reads a source of its own: it can be dirty while everything else is clean
        chk = plain('ddv_check', [])
        chk['exp'] = ['sv']
        edges.insert(0, chk)
        edges.insert(0, plain('ddv_hdr', ['ddv_check']))
        e['dd_ins'] = list(e.get('dd_ins', [])) + ['ddv_hdr']
    # an implicit output that a dyndep file (present from the start, not produced by the build) adds is also named as an
    # input in the manifest itself, behind the statement's first output: like a module file listed next to its object file
    for d, info in sorted(g['dd_files'].items()):
        if info['produced'] or draw(st.integers(0, 2)) != 2:
            continue
        # (not below a statement that reads generated files it does not declare: with known finding D1 such a statement may
        # run too early, and what happens to the consumers of its outputs then is that finding's business)
        for e in [x for x in edges if x.get('dd') == d and x.get('dd_outs') and all(h in g['srcs'] for h in x.get('hidden', []))][:1]:
            edges.append(dict(outs=['odc_' + d], iouts=[], phony=False, exp=[e['outs'][0], e['dd_outs'][0]], imp=[], oo=[], vals=[], restat=False,
                              generator=False, deps='', hidden=[], variant='v0', pool='', rsp=None, dd=None, depfile_layout=0))
    for pe in producers:
        edges.insert(0, pe)
    # chained two levels deep: the second dyndep file is made from an output of a statement that is bound to the first one,
    # so it can only be produced (and the statements bound to it only be completed) after the first file has been loaded
    if len(producers) == 2 and (force_chain or draw(st.integers(0, 1)) == 1):
        pe1 = [x for x in producers if x['outs'] == ['dd1']]
        b0 = [i for i, x in enumerate(edges) if x.get('dd') == 'dd0']
        b1 = [i for i, x in enumerate(edges) if x.get('dd') == 'dd1']
        if pe1 and b0 and b1 and min(b0) < min(b1):
            X = edges[min(b0)]
            pe1 = pe1[0]
            edges.remove(pe1)
            edges.insert(edges.index(X) + 1, pe1)
            pe1['exp'] = pe1['exp'] + [X['outs'][0]]
            g['dd_chained'] = True
    for e in edges:
        if e.get('is_dd_producer'):
            e['content_override'] = {key(e): dict(by='', table={}, default=models.dyndep_text(g, key(e)))}


def manifest(g):
    L = []
    for name, depth in sorted(g.get('pools', {}).items()):
        L.append("pool %s\n  depth = %d\n" % (name, depth))
    L.append("rule cc\n  command = cc $in -o $out # $v\n  description = CC $out\n")
    L.append("rule ccrsp\n  command = cc @$rspf -o $out # $v\n  description = CC $out\n  rspfile = $rspf\n"
             "  rspfile_content = $rsptag $in\n")
    for e in g['edges']:
        rule = 'phony' if e['phony'] else ('ccrsp' if e.get('rsp') is not None else 'cc')
        if e.get('bare') and not e['phony']:
            # a statement without build-level bindings: its rule carries the command variant and the dyndep binding
            rule = "bare_%s" % key(e).replace("/", "_")
            L.append("rule %s\n  command = cc $in -o $out # %s\n  description = CC $out\n%s%s" % (
                rule, e['variant'], ("  dyndep = %s\n" % e['dd']) if e.get('dd') else "", "  restat = 1\n" if e['restat'] else ""))
        line = "build %s" % " ".join(e['outs'])
        if e.get('iouts'):
            line += " | " + " ".join(e['iouts'])
        line += ": %s %s" % (rule, " ".join(e['exp']))
        if e['imp']:
            line += " | " + " ".join(e['imp'])
        oo = list(e['oo'])
        if e.get('dd') and e['dd'] not in e['exp'] + e['imp'] + oo:
            oo.append(e['dd'])
        if oo:
            line += " || " + " ".join(oo)
        if e.get('vals'):
            line += " |@ " + " ".join(e['vals'])
        L.append(line.rstrip() + "\n")
        if not e['phony'] and not e.get('bare'):
            L.append("  v = %s\n" % e['variant'])
            if e['restat']:
                L.append("  restat = 1\n")
            if e['generator']:
                L.append("  generator = 1\n")
            if e['deps'] in ('gcc', 'depfile'):
                L.append("  depfile = %s\n" % models.depfile_path(e))
            if e['deps'] in ('gcc', 'msvc'):
                L.append("  deps = %s\n" % e['deps'])
            if e.get('pool'):
                L.append("  pool = %s\n" % e['pool'])
            if e.get('rsp') is not None:
                L.append("  rsptag = %s\n  rspf = %s\n" % (e['rsp'], models.rspfile_path(e)))
            if e.get('dd'):
                L.append("  dyndep = %s\n" % e['dd'])
    if g.get('defaults'):
        L.append("default %s\n" % " ".join(g['defaults']))
    return "".join(L)


def real_args(g, e):
    """vtool arguments that describe what the command of e does (E2E engine); a function of the graph only"""
    ph = models.phony_outs(g)
    a = []
    if models.is_restat(e) and e.get('restat'):
        a.append("--restat")
    if e.get('dd') and e.get('dd_restat') and not e.get('restat'):
        a.append("--restat")     # the tool is a write-if-changed tool; ninja learns 'restat' from the dyndep file
    if e.get('deps') == 'msvc':
        a.append("--msvc")
    if e.get('deps') in ('gcc', 'depfile'):
        a += ["--depfile", models.depfile_path(e), "--layout", str(e.get('depfile_layout', 0))]
        if e.get('df_targets'):
            a += ["--depfile-targets", ",".join(depfile_targets(e))]
    if e.get('rsp') is not None:
        a += ["--rsp", key(e) + ".rsp"]
    for o, ov in (e.get('content_override') or {}).items():
        a += ["--literal", o, ov.get('default', '').encode().hex() or "00"]
    reads = models.true_reads(g, e, ph)
    if reads:
        a += ["--reads"] + reads
    hid = [spell(h, e.get('spell', 0)) if e.get('deps') in ('gcc', 'depfile') else h for h in e.get('hidden', [])]
    if hid:
        a += ["--hidden"] + hid
    a += ["--out"] + all_outs(e) + models.dd_outs(g, e)
    return " ".join(a)


def real_manifest(g, vtool):
    """the same graph as manifest(g), with commands that run the vtool helper"""
    L = ["vt = %s\n" % vtool]
    for name, depth in sorted(g.get('pools', {}).items()):
        L.append("pool %s\n  depth = %d\n" % (name, depth))
    L.append("rule cc\n  command = $vt run --tag x$cmdtag --id $key --variant $v $args\n  description = CC $out\n")
    L.append("rule ccrsp\n  command = $vt run --tag x$cmdtag --id $key --variant $v $args\n  description = CC $out\n  rspfile = $rspf\n"
             "  rspfile_content = $rsptag $in\n")
    for e in g['edges']:
        rule = 'phony' if e['phony'] else ('ccrsp' if e.get('rsp') is not None else 'cc')
        if e.get('bare') and not e['phony']:
            rule = "bare_%s" % key(e).replace("/", "_")
            L.append("rule %s\n  command = $vt run --id %s --variant %s %s\n  description = CC $out\n%s%s" % (
                rule, key(e), models.content_variant(e), real_args(g, e), ("  dyndep = %s\n" % e['dd']) if e.get('dd') else "",
                "  restat = 1\n" if e['restat'] else ""))
        line = "build %s" % " ".join(e['outs'])
        if e.get('iouts'):
            line += " | " + " ".join(e['iouts'])
        line += ": %s %s" % (rule, " ".join(e['exp']))
        if e['imp']:
            line += " | " + " ".join(e['imp'])
        oo = list(e['oo'])
        if e.get('dd') and e['dd'] not in e['exp'] + e['imp'] + oo:
            oo.append(e['dd'])
        if oo:
            line += " || " + " ".join(oo)
        if e.get('vals'):
            line += " |@ " + " ".join(e['vals'])
        L.append(line.rstrip() + "\n")
        if not e['phony'] and not e.get('bare'):
            L.append("  key = %s\n  v = %s\n  args = %s\n" % (key(e), models.content_variant(e), real_args(g, e)))
            if e['variant'] != models.content_variant(e):
                L.append("  cmdtag = %s\n" % e['variant'])
            if e['restat']:
                L.append("  restat = 1\n")
            if e['generator']:
                L.append("  generator = 1\n")
            if e['deps'] in ('gcc', 'depfile'):
                L.append("  depfile = %s\n" % models.depfile_path(e))
            if e['deps'] in ('gcc', 'msvc'):
                L.append("  deps = %s\n" % e['deps'])
            if e.get('deps_unknown'):
                L.append("  deps = %s\n" % e['deps_unknown'])      # a deps type ninja does not know: an error once the command has run
            if e.get('pool'):
                L.append("  pool = %s\n" % e['pool'])
            if e.get('rsp') is not None:
                L.append("  rsptag = %s\n  rspf = %s\n" % (e['rsp'], models.rspfile_path(e)))
            if e.get('dd'):
                L.append("  dyndep = %s\n" % e['dd'])
    if g.get('defaults'):
        L.append("default %s\n" % " ".join(g['defaults']))
    return "".join(L)


def sim_edges(g, faults=None):
    """per-edge behaviour spec for the SIM runner, keyed by first output"""
    ph = models.phony_outs(g)
    spec = {}
    for e in g['edges']:
        if e['phony']:
            continue
        # report_extra: files the command lists in its depfile / showIncludes output without reading them (its own output)
        s = dict(reads=models.true_reads(g, e, ph), hidden=list(e.get('hidden', [])) + list(e.get('report_extra', [])), variant=models.content_variant(e),
                 depfile_layout=e.get('depfile_layout', 0))
        if e.get('spell') and e.get('deps') in ('gcc', 'depfile'):
            s['hidden_spelled'] = [spell(h, e['spell']) for h in list(e.get('hidden', [])) + list(e.get('report_extra', []))]
        if e.get('df_targets') and e.get('deps') in ('gcc', 'depfile'):
            s['depfile_target'] = " ".join(depfile_targets(e))
        if e.get('content_override'):
            s['content_override'] = e['content_override']
        if e.get('print'):
            s['print'] = e['print']
        if faults and key(e) in faults:
            s.update(faults[key(e)])
        spec[key(e)] = s
    return spec


def depfile_targets(e):
    """all outputs of the statement as the depfile spells them (first output first, as ninja requires)"""
    return [spell(o, e.get('spell', 0)) for o in all_outs(e)]


def spell(path, style):
    """a non-canonical spelling of the same file"""
    if style == 1:
        return "./" + path
    if style == 2:
        return "inc/../" + path
    if style == 3:
        d, _, b = path.rpartition("/")
        return (d + "//" + b) if d else "./././" + path
    return path


def topo_targets(g):
    """one target per edge in definition order (a topological order of the true read relation)"""
    return [key(e) for e in g['edges']]


# ---------------------------------------------------------------------------------------------- histories
SCHED = st.lists(st.integers(0, 5), max_size=8)


def build_op(fail=False):
    d = dict(op=st.just('build'), sel=st.integers(0, 40), j=st.sampled_from([1, 1, 2, 3, 8]), k=st.sampled_from([1, 1, 2, 0]),
             sched=SCHED,
             # a source file is edited while the build runs (at the n-th wait): [] = no edit, else [wait index, source index]
             mid=st.one_of(st.just([]), st.just([]), st.just([]), st.lists(st.integers(0, 6), min_size=2, max_size=2)))
    if fail:
        d['faults'] = st.lists(st.tuples(st.integers(0, 30), st.sampled_from([1, 2, 3, 127, 255]), st.booleans()), min_size=1, max_size=2)
    return st.fixed_dictionaries(d)


def change_op():
    return st.one_of(
        # content from a small shared pool (c<3: two files may get equal content, an edit may restore old content) or unique
        st.fixed_dictionaries(dict(op=st.just('edit'), a=st.integers(0, 30), c=st.integers(0, 5))),
        st.fixed_dictionaries(dict(op=st.just('edit'), a=st.integers(0, 30), c=st.integers(0, 5))),
        st.fixed_dictionaries(dict(op=st.just('rehide'), a=st.integers(0, 30), b=st.integers(0, 30), c=st.integers(0, 5))),
        st.fixed_dictionaries(dict(op=st.just('wipe_outs'))),
        # the manifest itself changes between builds
        st.fixed_dictionaries(dict(op=st.just('add_edge'), a=st.integers(0, 30), b=st.integers(0, 30), restat=st.booleans())),
        st.fixed_dictionaries(dict(op=st.just('remove_edge'), a=st.integers(0, 30))),
        st.fixed_dictionaries(dict(op=st.just('swap_hidden_same_content'), a=st.integers(0, 30), b=st.integers(0, 30))),
        st.fixed_dictionaries(dict(op=st.just('touch'), a=st.integers(0, 30))),
        st.fixed_dictionaries(dict(op=st.just('del_out'), a=st.integers(0, 30))),
        # a declared source file disappears: nothing can make it, every build that needs it must say so before it runs anything
        st.fixed_dictionaries(dict(op=st.just('del_src'), a=st.integers(0, 30))),
        st.fixed_dictionaries(dict(op=st.just('variant'), a=st.integers(0, 30), b=st.integers(0, 2))),
        st.fixed_dictionaries(dict(op=st.just('rspvar'), a=st.integers(0, 30), b=st.integers(0, 2))),
        st.fixed_dictionaries(dict(op=st.just('del_depfile'), a=st.integers(0, 30))),
        st.fixed_dictionaries(dict(op=st.just('drop_log'), a=st.integers(0, 30))),
        st.fixed_dictionaries(dict(op=st.just('wipe_deps'))),
        # the log as it looks after many rebuilds: every record several times, so that the next start recompacts it
        st.fixed_dictionaries(dict(op=st.just('bloat_log'))),
        # directed ops: construct the rare shapes instead of waiting for them
        st.fixed_dictionaries(dict(op=st.just('touch_restat_input'), a=st.integers(0, 30))),
        st.fixed_dictionaries(dict(op=st.just('edit_hidden'), a=st.integers(0, 30))),
        # a statement that gets 'restat' from a dyndep file which is itself rebuilt in the same build reproduces its output
        st.fixed_dictionaries(dict(op=st.just('dd_restat_noop'), a=st.integers(0, 30))),
    )


def macro_op():
    """fixed skeletons of related steps whose parameters are generated (which statement, which file, -j, schedule):
    they construct multi-step shapes that independent draws would need ~1e5 histories to line up"""
    return st.fixed_dictionaries(dict(op=st.sampled_from(['m_swap_then_edit', 'm_rehide_then_edit', 'm_fail_then_fix', 'm_bloat_then_rebuild', 'm_missing_oo_source', 'm_overlapping_failures', 'm_partial_restat_then_noop', 'm_alias_file_then_edit']),
                                      a=st.integers(0, 30), b=st.integers(0, 30), c=st.integers(0, 5),
                                      j=st.sampled_from([1, 2, 3]), sched=SCHED))


def histories(max_ops=8, with_failures=True):
    """rounds of (1-3 changes, then a build): every build follows a change; a failing build is usually followed by
    a clean retry"""
    builds = [build_op(), build_op(), build_op()]
    if with_failures:
        builds.append(build_op(fail=True))
    rnd = st.one_of(st.tuples(st.lists(change_op(), min_size=1, max_size=3), st.one_of(*builds)),
                    st.tuples(st.lists(change_op(), min_size=1, max_size=3), st.one_of(*builds)),
                    st.tuples(st.lists(change_op(), min_size=1, max_size=3), st.one_of(*builds)),
                    st.tuples(st.just([]), macro_op()))
    return st.lists(rnd, min_size=1, max_size=max(1, max_ops // 2)).map(
        lambda rs: [op for ch, b in rs for op in (ch + [b])])
