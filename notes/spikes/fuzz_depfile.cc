#include <stdint.h>
#include <string>
#include "depfile_parser.h"
extern "C" int LLVMFuzzerTestOneInput(const uint8_t* data, size_t size) {
  std::string c((const char*)data, size); std::string err; DepfileParser p; 
  if (p.Parse(&c, &err)) { for (auto& s : p.ins_) { if (s.str_ < c.data() || s.str_ + s.len_ > c.data() + c.size()) __builtin_trap(); } for (auto& s : p.outs_) { if (s.str_ < c.data() || s.str_ + s.len_ > c.data() + c.size()) __builtin_trap(); } }
  return 0;
}
