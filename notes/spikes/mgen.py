# SPIKE: grammar-based generator of valid multi-file manifests + single-token mutations; differential vs mref.
import os, sys, json, collections
from hypothesis import given, settings, strategies as st, seed, HealthCheck, Phase
import mref

VARS = [b'x', b'y', b'flags', b'description', b'command', b'pool', b'depfile', b'restat', b'out', b'in']
RULEKEYS = [b'description', b'depfile', b'deps', b'generator', b'restat', b'pool', b'msvc_deps_prefix']

@st.composite
def value_tokens(draw, allow_in_out=True):
    """a value as a list of source-text pieces (already in ninja syntax)."""
    n = draw(st.integers(0, 4)); parts = []
    for _ in range(n):
        k = draw(st.integers(0, 9))
        if k <= 2: parts.append(draw(st.sampled_from([b'foo', b'bar baz', b'a:b', b'p|q', b'-O2', b'#h', b'  sp'])))
        elif k == 3: parts.append(b'$' + draw(st.sampled_from([b'x', b'y', b'flags', b'description', b'pool'])))
        elif k == 4: parts.append(b'${' + draw(st.sampled_from(VARS)) + b'}')
        elif k == 5: parts.append(b'$$')
        elif k == 6: parts.append(b'$ ')
        elif k == 7: parts.append(b'$:')
        elif k == 8 and allow_in_out: parts.append(draw(st.sampled_from([b'$in', b'$out', b'${in_newline}'])))
        else: parts.append(draw(st.sampled_from([b'$\n    ', b'$x.c', b'$y-z'])))
    return b''.join(parts)

@st.composite
def path_src(draw, prefix):
    tail = draw(st.sampled_from([b'', b'.o', b'/d', b'/./e', b'/../f', b'//g', b'$ h', b'$:i', b'$x', b'${y}k', b'$$', b'/']))
    return prefix + tail

@st.composite
def file_body(draw, fid, depth, counter, rules_visible, pools_visible):
    lines = []; my_rules = []; subfiles = {}
    nstmt = draw(st.integers(1, 7))
    for _ in range(nstmt):
        k = draw(st.integers(0, 11))
        if k <= 2:   # let
            lines.append(draw(st.sampled_from(VARS)) + b' = ' + draw(value_tokens(False)) + b'\n')
        elif k <= 4:  # rule
            name = b'r%d_%d' % (fid, len(my_rules))
            if name in my_rules: continue
            body = b'rule ' + name + b'\n  command = cmd ' + draw(value_tokens()) + b'\n'
            for rk in draw(st.lists(st.sampled_from(RULEKEYS), max_size=3, unique=True)):
                if rk == b'pool':
                    body += b'  pool = ' + draw(st.sampled_from([b'', b'console'] + pools_visible + [b'$pool'])) + b'\n'
                else:
                    body += b'  ' + rk + b' = ' + draw(value_tokens()) + b'\n'
            if draw(st.integers(0, 5)) == 0:
                body += b'  rspfile = $out.rsp\n  rspfile_content = ' + (draw(value_tokens()) or b'$in') + b' .\n'
            lines.append(body); my_rules.append(name)
        elif k <= 8:  # build
            rule = draw(st.sampled_from(rules_visible + my_rules + [b'phony']))
            counter[0] += 1; oid = counter[0]
            outs = [draw(path_src(b'o%d' % oid))]
            if draw(st.integers(0, 3)) == 0: outs.append(draw(path_src(b'o%db' % oid)))
            iouts = [draw(path_src(b'io%d' % oid))] if draw(st.integers(0, 4)) == 0 else []
            def some(lo, hi, pfx):
                return [draw(path_src(pfx + (b'%d' % draw(st.integers(0, 4))))) for _ in range(draw(st.integers(lo, hi)))]
            ins = some(0, 2, b's'); imp = some(0, 1, b'h'); oo = some(0, 1, b'q'); vals = some(0, 1, b'v')
            l = b'build ' + b' '.join(outs)
            if iouts: l += b' | ' + b' '.join(iouts)
            l += b': ' + rule + b' ' + b' '.join(ins)
            if imp: l += b' | ' + b' '.join(imp)
            if oo: l += b' || ' + b' '.join(oo)
            if vals: l += b' |@ ' + b' '.join(vals)
            if rule == b'phony' and draw(st.integers(0, 1)) == 0:
                # legacy self reference in a random input position / kind
                selfref = outs[0]
                l = b'build ' + selfref + b': phony ' + b' '.join(ins + [selfref] if draw(st.booleans()) else [selfref] + ins)
                if oo or draw(st.booleans()): l += b' || ' + b' '.join(oo + ([selfref] if draw(st.booleans()) else []))
            l += b'\n'
            if ins and draw(st.integers(0, 6)) == 0:
                l += b'  dyndep = ' + draw(st.sampled_from(ins + [b'nosuch'])) + b'\n'
            if draw(st.integers(0, 8)) == 0:
                lines.append(b'default ' + outs[0] + b'\n') if False else None
            for bk in draw(st.lists(st.sampled_from(VARS + [b'description', b'restat']), max_size=2, unique=True)):
                if bk == b'pool': l += b'  pool = ' + draw(st.sampled_from([b'', b'console'] + pools_visible)) + b'\n'
                elif bk in (b'in', b'out'): l += b'  ' + bk + b' = shadow\n'
                else: l += b'  ' + bk + b' = ' + draw(value_tokens(False)) + b'\n'
            lines.append(l)
        elif k == 9 and depth < 2:  # include / subninja
            kw = draw(st.sampled_from([b'include', b'subninja']))
            counter[1] += 1; name = b'f%d.ninja' % counter[1]
            body, sub = draw(file_body(counter[1], depth + 1, counter, rules_visible + my_rules, pools_visible))
            subfiles[name] = body; subfiles.update(sub)
            lines.append(kw + b' ' + name + b'\n')
            # (rules defined by an include become visible to the includer; keep generator conservative: not used)
        elif k == 10:
            pn = b'p%d_%d' % (fid, len(pools_visible))
            if pn not in pools_visible:
                lines.append(b'pool ' + pn + b'\n  depth = %d\n' % draw(st.integers(0, 4))); pools_visible = pools_visible + [pn]
        elif k == 11 and draw(st.booleans()):
            lines.append(draw(st.sampled_from([b'ninja_required_version = 1.14\n', b'ninja_required_version = 1.3\n', b'z = a$^b\n', b'default o1\n', b'default nosuch\n'])))
        else:
            lines.append(draw(st.sampled_from([b'# comment\n', b'\n', b'   \n', b'  # indented comment\n'])))
    return b''.join(lines), subfiles

@st.composite
def programs(draw):
    counter = [0, 0]
    # pool names must not be shadowed by the 'pool' *variable* draws: remove b'pool' lets that reference unknown pools
    body, subs = draw(file_body(0, 0, counter, [], []))
    files = {b'build.ninja': body}; files.update(subs)
    if draw(st.booleans()): files = {k: v.replace(b'\n', b'\r\n') if draw(st.integers(0, 3)) == 0 else v for k, v in files.items()}
    return files

stats = collections.Counter(); found = collections.OrderedDict()

@seed(int(os.environ.get('VERIF_SEED', '1')))
@settings(max_examples=int(os.environ.get('N', '300')), deadline=None, database=None, suppress_health_check=list(HealthCheck), phases=[Phase.generate])
@given(programs(), st.integers(0, 10**6), st.integers(0, 30))
def run(files, mpos, mkind):
    stats['cases'] += 1
    d, r, n = mref.compare(files)
    stats['ref_ok' if r.get('ok') else 'ref_reject' if 'ok' in r else 'ref_other'] += 1
    if d: found.setdefault(d.split(':')[0][:60], []).append((files, d, r, n))
    # one single-token mutation of the main file
    if os.environ.get('MUT'):
        import re
        main = files[b'build.ninja']
        toks = re.findall(rb'\$\{[^}]*\}|\$.|[A-Za-z0-9_.\-]+|\r?\n|[ ]+|.', main, re.S)
        if toks:
            i = mpos % len(toks)
            alphabet = [b'', b'build', b'rule', b':', b'|', b'||', b'|@', b'=', b'$', b'\n', b'  ', b'\t', b'x', b'default', b'pool', b'include', b'subninja', b'#', b'$\n', b'\r\n', b'${', b'}']
            if mkind < len(alphabet): toks[i] = alphabet[mkind]
            elif mkind < 26: toks[i] = toks[i] + toks[i]
            else: toks[i:i+2] = reversed(toks[i:i+2])
            f2 = dict(files); f2[b'build.ninja'] = b''.join(toks)
            d, r, n = mref.compare(f2)
            stats['mut_cases'] += 1
            stats['mut_ref_ok' if r.get('ok') else 'mut_ref_reject' if 'ok' in r else 'mut_other'] += 1
            if d: found.setdefault('MUT ' + d.split(':')[0][:60], []).append((f2, d, r, n))

if __name__ == '__main__':
    run()
    print('stats', dict(stats))
    for k, v in found.items():
        print('=' * 30, k, len(v))
        files, d, r, n = min(v, key=lambda t: sum(len(x) for x in t[0].values()))
        for fn, body in files.items(): print('---', fn.decode()); print(body.decode('latin1'))
        print('DIFF:', d)
        if not r.get('ok', True) or not n.get('ok', True): print(' ref:', r.get('err') or r); print(' ninja:', n.get('err') or n)
