# SPIKE (throwaway): validate the SIM engine + M-content + M-make oracles on stock ninja.
import json, os, shutil, subprocess, sys, tempfile, collections
from hypothesis import given, settings, strategies as st, seed, HealthCheck, event, Phase

SIM = "/tmp/spike/sim2"
ENV = dict(os.environ, ASAN_OPTIONS="detect_leaks=0")

def fnv(s):
    h = 1469598103934665603
    for c in s.encode():
        h ^= c; h = (h * 1099511628211) & 0xFFFFFFFFFFFFFFFF
    return "%016x" % h

# ---------------------------------------------------------------- graph spec
# edge: dict(outs=[..], rule kind: 'cc'|'phony', exp=[..], imp=[..], oo=[..], restat, deps('', 'gcc','depfile','msvc'), hidden=[..], variant)
@st.composite
def graphs(draw):
    nsrc = draw(st.integers(1, 3))
    srcs = ["s%d" % i for i in range(nsrc)]
    avail = list(srcs)           # nodes usable as inputs
    edges = []
    nedges = draw(st.integers(1, 6))
    for ei in range(nedges):
        phony = draw(st.integers(0, 9)) == 0 and len(avail) > 0
        nouts = 1 if phony else draw(st.sampled_from([1, 1, 1, 2]))
        outs = ["o%d_%d" % (ei, k) for k in range(nouts)]
        pick = lambda lo, hi: draw(st.lists(st.sampled_from(avail), min_size=lo, max_size=hi, unique=True))
        exp = pick(1, 2)
        rest = [a for a in avail if a not in exp]
        imp = draw(st.lists(st.sampled_from(rest), max_size=1, unique=True)) if rest else []
        rest = [a for a in rest if a not in imp]
        oo = draw(st.lists(st.sampled_from(rest), max_size=1, unique=True)) if rest else []
        rest = [a for a in rest if a not in oo]
        e = dict(outs=outs, phony=phony, exp=exp, imp=imp, oo=oo, restat=False, deps='', hidden=[], variant='v0')
        if not phony:
            e['restat'] = draw(st.integers(0, 3)) == 0 and not os.environ.get('NORESTAT')
            e['deps'] = draw(st.sampled_from(['', '', 'gcc', 'gcc', 'depfile', 'msvc'])) if nouts == 1 else draw(st.sampled_from(['', '', 'depfile']))
            if e['deps'] and rest:
                # hidden reads: sources or generated files (not already declared)
                cand = [a for a in rest if not a.startswith('ph') and (not os.environ.get('NOGEN') or a.startswith('s'))]
                e['hidden'] = draw(st.lists(st.sampled_from(cand), max_size=2, unique=True)) if cand else []
        edges.append(e)
        # phony outputs are usable as inputs too
        avail.extend(outs)
    return dict(srcs=srcs, edges=edges)

def manifest(g):
    L = ["rule cc\n  command = cc $in -o $out # $v\n",
         "rule ccr\n  command = cc $in -o $out # $v\n  restat = 1\n"]
    for e in g['edges']:
        rule = 'phony' if e['phony'] else ('ccr' if e['restat'] else 'cc')
        line = "build %s: %s %s" % (" ".join(e['outs']), rule, " ".join(e['exp']))
        if e['imp']: line += " | " + " ".join(e['imp'])
        if e['oo']: line += " || " + " ".join(e['oo'])
        L.append(line + "\n")
        if not e['phony']:
            L.append("  v = %s\n" % e['variant'])
            if e['deps'] in ('gcc', 'depfile'):
                L.append("  depfile = %s.d\n" % e['outs'][0])
            if e['deps'] in ('gcc', 'msvc'):
                L.append("  deps = %s\n" % e['deps'])
    return "".join(L)

def producer(g):
    p = {}
    for e in g['edges']:
        for o in e['outs']: p[o] = e
    return p

PHONY_OUTS = set()
def reads(e):
    return [r for r in e['exp'] + e['imp'] + [h for h in e['hidden'] if h not in e['exp'] + e['imp']] if r not in PHONY_OUTS]

# ---------------------------------------------------------------- M-content
def expected_content(g, files, node, memo):
    """content a clean build would give to node (None if it has no file content: phony)."""
    if node in memo: return memo[node]
    p = producer(g).get(node)
    if p is None:
        memo[node] = files[node]['c'] if node in files else None
        return memo[node]
    if p['phony']:
        memo[node] = None
        for i in p['exp'] + p['imp'] + p['oo']: expected_content(g, files, i, memo)
        return None
    acc = p['outs'][0] + "|" + p['variant'] + "|"
    for r in reads(p):
        c = expected_content(g, files, r, memo)
        pr = producer(g).get(r)
        if pr is not None and pr['phony']:
            c = None
        acc += ("<missing>" if c is None else c) + ","
    h = fnv(acc)
    for o in p['outs']: memo[o] = h + "@" + o
    return memo[node]

def closure(g, targets):
    """edges needed for targets through all declared input kinds + hidden (true deps)."""
    prod = producer(g); seen = []; seen_set = set()
    def visit(n):
        e = prod.get(n)
        if e is None or id(e) in seen_set: return
        seen_set.add(id(e))
        for i in e['exp'] + e['imp'] + e['oo'] + e['hidden']: visit(i)
        seen.append(e)
    for t in targets: visit(t)
    return seen

# ---------------------------------------------------------------- M-make
class Model:
    def __init__(self):
        self.rec = {}      # out -> (variant, time)
        self.deprec = {}   # out0 -> (mtime, hidden list)   (deps=gcc/msvc)

    def plan(self, g, files, targets):
        """returns (run_set(first outputs), error?) per documented dirty rules; assumes no failures."""
        prod = producer(g)
        order = self.manifest_closure(g, files, targets)
        dirty_node = {}   # node -> bool (will be rewritten / is dirty)
        mt = {}           # effective mtime (phony pass-through)
        run = []
        def node_mtime(n):
            if n in files: return files[n]['m']
            return mt.get(n, 0)
        for e in order:
            ins_no = list(e['exp'] + e['imp'])
            must = False; why = None
            disc = []
            if not e['phony'] and e['deps']:
                o0 = e['outs'][0]
                if e['deps'] in ('gcc', 'msvc'):
                    dr = self.deprec.get(o0)
                    if dr is None or (o0 in files and files[o0]['m'] > dr[0]): must, why = True, 'deps missing/stale'
                    else: disc = dr[1]
                else:
                    df = o0 + ".d"
                    if df not in files or not files[df]['c']: must, why = True, 'depfile missing'
                    else: disc = files[df]['c'].split(":", 1)[1].split()
            ins_all = ins_no + [d for d in disc if d not in ins_no]
            # inputs dirty?
            for i in ins_all:
                p = prod.get(i)
                if p is None:
                    if i not in files:
                        if i in disc and i not in ins_no: must, why = True, 'discovered dep vanished'
                        else: return None, "missing source %s" % i
                elif dirty_node.get(i): must, why = True, 'input %s dirty' % i
            m = max([node_mtime(i) for i in ins_all] or [0])
            if e['phony']:
                for o in e['outs']:
                    dirty_node[o] = must
                    if o not in files: mt[o] = m
                continue
            if not must:
                for o in e['outs']:
                    if o not in files: must, why = True, 'output missing'; break
                    r = self.rec.get(o)
                    if not (e['restat'] and r) and files[o]['m'] < m: must, why = True, 'older than input'; break
                    if r is None: must, why = True, 'no record'; break
                    if r[0] != e['variant']: must, why = True, 'command changed'; break
                    if r[1] < m: must, why = True, 'recorded time older than input'; break
            e['_why'] = why
            if must:
                run.append(e)
                newc = expected_content_running(g, files, e, dirty_node, prod)
                for o in e['outs']:
                    if e['restat'] and o in files and newc is not None and files[o]['c'] == newc + "@" + o:
                        dirty_node[o] = False
                    else:
                        dirty_node[o] = True
            else:
                for o in e['outs']: dirty_node[o] = False
        return [e['outs'][0] for e in run], None

    def manifest_closure(self, g, files, targets):
        """edges reachable via declared inputs + *recorded* discovered deps (what a correct ninja knows)."""
        prod = producer(g); seen = []; ss = set()
        def visit(n):
            e = prod.get(n)
            if e is None or id(e) in ss: return
            ss.add(id(e))
            extra = []
            if not e['phony'] and e['deps']:
                o0 = e['outs'][0]
                if e['deps'] in ('gcc', 'msvc'):
                    dr = self.deprec.get(o0)
                    if dr is not None and not (o0 in files and files[o0]['m'] > dr[0]): extra = dr[1]
                else:
                    df = o0 + ".d"
                    if df in files and files[df]['c']: extra = files[df]['c'].split(":", 1)[1].split()
            for i in e['exp'] + e['imp'] + e['oo'] + extra: visit(i)
            seen.append(e)
        for t in targets: visit(t)
        return seen

def expected_content_running(g, files, e, dirty_node, prod):
    """content e would write when it runs in this build: inputs that are rewritten take their clean content."""
    memo = {}
    # inputs: current disk content unless producer runs in this build -> then clean-build content. Simplification: use clean content
    acc = e['outs'][0] + "|" + e['variant'] + "|"
    for r in reads(e):
        c = expected_content(g, files, r, memo)
        acc += ("<missing>" if c is None else c) + ","
    return fnv(acc)

def _fold(model, g, res):
    prod = producer(g); files = res['files']
    starts = {ev['edge']: ev for ev in res['trace'] if ev['ev'] == 'start'}
    for ev in res['trace']:
        if ev['ev'] == 'finish' and ev['status'] == 0:
            e = prod[ev['edge']]
            t = starts[ev['edge']]['start_tick']
            if e['restat'] and len(ev['wrote']) == len(e['outs']):
                t = max([t] + [files[o]['m'] for o in e['outs']])
            for o in e['outs']: model.rec[o] = (e['variant'], t)
            if e['deps'] in ('gcc', 'msvc'):
                model.deprec[e['outs'][0]] = (files[e['outs'][0]]['m'], list(e['hidden']))
# ---------------------------------------------------------------- driver
def run_sim(req):
    p = subprocess.run([SIM], input=json.dumps(req), capture_output=True, text=True, env=ENV, timeout=60)
    if p.returncode != 0 or not p.stdout.strip():
        raise RuntimeError("sim died rc=%s stderr=%s" % (p.returncode, p.stderr[-2000:]))
    return json.loads(p.stdout)

ops_st = st.lists(st.tuples(st.sampled_from(['edit', 'edit', 'touch', 'delete_out', 'variant', 'build', 'build', 'build_sub']),
                            st.integers(0, 50), st.integers(0, 50), st.lists(st.integers(0, 5), max_size=6)), min_size=1, max_size=7)

stats = collections.Counter()
failures = []

def check_case(g, ops, verbose=False):
    tmp = tempfile.mkdtemp(prefix="spk", dir="/dev/shm")
    try:
        files = {}
        now = 10
        for s in g['srcs']:
            now += 1; files[s] = {'c': s + "#0", 'm': now}
        model = Model()
        edit_n = 0
        allouts = [o for e in g['edges'] for o in e['outs']]
        built_once = False
        seq = list(ops)
        seq.insert(0, ('build', 0, 0, []))  # initial full build
        for (op, a, b, sched) in seq:
            if op == 'edit':
                s = g['srcs'][a % len(g['srcs'])]; edit_n += 1; now += 1
                files[s] = {'c': "%s#%d" % (s, edit_n), 'm': now}
            elif op == 'touch':
                s = g['srcs'][a % len(g['srcs'])]; now += 1
                if s in files: files[s]['m'] = now
            elif op == 'delete_out':
                o = allouts[a % len(allouts)]
                files.pop(o, None)
            elif op == 'variant':
                es = [e for e in g['edges'] if not e['phony']]
                if es:
                    e = es[a % len(es)]; e['variant'] = 'v%d' % (b % 3)
            else:
                targets = allouts if op == 'build' else [allouts[a % len(allouts)]]
                if not built_once:
                    # build in edge order so hidden generated headers exist before consumers (no manifest path needed)
                    targets = allouts
                j = 1 + b % 3
                mtext = manifest(g)
                now += 1
                files['build.ninja'] = {'c': mtext, 'm': 1}
                exp_run, exp_err = model.plan(g, files, targets)
                edges_spec = {}
                for e in g['edges']:
                    if e['phony']: continue
                    edges_spec[e['outs'][0]] = dict(reads=reads(e), hidden=e['hidden'], variant=e['variant'])
                req = dict(files=files, now=now, logdir=tmp, targets=targets, j=j, k=1, edges=edges_spec, schedule=sched)
                if not built_once:
                    req['j'] = 1
                    # initial build: one target at a time in definition order so hidden generated reads exist
                    for t in allouts[:-1]:
                        r0 = run_sim(dict(req, targets=[t]))
                        req['files'] = dict(r0['files']); req['now'] = r0['now']
                        for ev in r0['trace']:
                            pass
                        # fold log model for these too
                        _fold(model, g, r0)
                    req['targets'] = [allouts[-1]]
                res = run_sim(req)
                stats['builds'] += 1
                files = res['files']; now = res['now']
                files.pop('build.ninja', None)
                started = [ev['edge'] for ev in res['trace'] if ev['ev'] == 'start']
                finished_ok = [ev for ev in res['trace'] if ev['ev'] == 'finish' and ev['status'] == 0]
                # model log update from observed successful completions
                prod = producer(g)
                starts = {ev['edge']: ev for ev in res['trace'] if ev['ev'] == 'start'}
                for ev in finished_ok:
                    e = prod[ev['edge']]
                    t = starts[ev['edge']]['start_tick']
                    if e['restat']:
                        if len(ev['wrote']) == len(e['outs']):
                            t = max([t] + [files[o]['m'] for o in e['outs']])
                    for o in e['outs']: model.rec[o] = (e['variant'], t)
                    if e['deps'] in ('gcc', 'msvc'):
                        model.deprec[e['outs'][0]] = (files[e['outs'][0]]['m'], list(e['hidden']))
                ctx = dict(g=g, op=(op, a, b, sched), targets=targets, started=started, exp_run=exp_run, status=res['status'], err=res['err'])
                if exp_err:
                    stats['exp_err'] += 1
                    if res['status'] == 0: return ("C05-missing-source-accepted", ctx)
                    continue
                if res['status'] != 0:
                    return ("unexpected-failure", ctx)
                # C03 minimality
                if built_once and sorted(started) != sorted(exp_run):
                    # classify
                    memo = {}
                    stale = []
                    for e in closure(g, targets):
                        if e['phony']: continue
                        for o in e['outs']:
                            if files.get(o, {}).get('c') != expected_content(g, files, o, memo): stale.append(o)
                    ctx['stale'] = stale
                    ctx['why'] = {e['outs'][0]: e.get('_why') for e in g['edges']}
                    return ("C03-mismatch" + ("+C01-stale" if stale else ""), ctx)
                # C01 content
                memo = {}
                for e in closure(g, targets):
                    if e['phony']: continue
                    for o in e['outs']:
                        if files.get(o, {}).get('c') != expected_content(g, files, o, memo):
                            ctx['stale'] = o
                            return ("C01-stale", ctx)
                # C04 ordering (trace only)
                done = set()
                for ev in res['trace']:
                    if ev['ev'] == 'finish' and ev['status'] == 0: done.add(ev['edge'])
                    if ev['ev'] == 'start':
                        e = prod[ev['edge']]
                        for i in e['exp'] + e['imp'] + e['oo'] + e['hidden']:
                            pe = prod.get(i)
                            while pe is not None and pe['phony']:
                                pe = None  # (phony chains ignored in spike)
                            if pe is not None and pe['outs'][0] in started and pe['outs'][0] not in done:
                                ctx['order'] = (ev['edge'], i)
                                return ("C04-order", ctx)
                # C02 convergence
                req2 = dict(req, files=dict(files, **{'build.ninja': {'c': mtext, 'm': 1}}), now=now, schedule=[])
                res2 = run_sim(req2)
                st2 = [ev['edge'] for ev in res2['trace'] if ev['ev'] == 'start']
                if st2:
                    ctx['second'] = st2
                    return ("C02-not-converged", ctx)
                if len(started) >= 1 and built_once: stats['nontrivial'] += 1
                built_once = True
        return None
    finally:
        shutil.rmtree(tmp, ignore_errors=True)

results = collections.Counter()
examples = {}

@seed(int(os.environ.get("VERIF_SEED", "1")))
@settings(max_examples=int(os.environ.get("N", "300")), deadline=None, database=None,
          suppress_health_check=list(HealthCheck), phases=[Phase.generate])
@given(graphs(), ops_st)
def explore(g, ops):
    import copy
    PHONY_OUTS.clear(); PHONY_OUTS.update(o for e in g['edges'] if e['phony'] for o in e['outs'])
    r = check_case(copy.deepcopy(g), ops)
    stats['cases'] += 1
    if r:
        results[r[0]] += 1
        examples.setdefault(r[0], []).append((g, ops, r[1]))

if __name__ == "__main__":
    explore()
    print("stats", dict(stats))
    print("results", dict(results))
    for k, v in examples.items():
        print("=== ", k, len(v))
        g, ops, ctx = min(v, key=lambda x: len(json.dumps(x[0])) + len(json.dumps(x[1])))
        print(manifest(g)); print("hidden:", {e['outs'][0]: e['hidden'] for e in g['edges'] if e['hidden']})
        print("ops:", ops); print("ctx:", {k2: v2 for k2, v2 in ctx.items() if k2 != 'g'})
