#include <stdint.h>
#include <stdio.h>
#include <string>
#include <unistd.h>
#include "build_log.h"
extern "C" int LLVMFuzzerTestOneInput(const uint8_t* data, size_t size) {
  static std::string path = "/dev/shm/fzlog." + std::to_string(getpid());
  FILE* f = fopen(path.c_str(), "wb");
  if (size && (data[0] & 1)) fputs("# ninja log v7\n", f);
  fwrite(data, 1, size, f); fclose(f);
  BuildLog log; std::string err; log.Load(path, &err);
  for (auto& kv : log.entries()) (void)kv.second->output.size();
  return 0;
}
