#include <stdint.h>
#include <string>
#include <map>
#include <stdexcept>
#include "disk_interface.h"
#include "state.h"
#include "manifest_parser.h"
#include "graph.h"
struct FatalExit { int code; };
extern "C" void __wrap_exit(int code) { throw FatalExit{code}; }
struct MemReader : FileReader {
  std::map<std::string, std::string> files; int depth = 0;
  Status ReadFile(const std::string& p, std::string* c, std::string* err) override {
    if (++depth > 40) { *err = "too deep (harness)"; return OtherError; }
    auto i = files.find(p); if (i == files.end()) { *err = "not found"; return NotFound; } *c = i->second; return Okay; }
};
extern "C" int LLVMFuzzerTestOneInput(const uint8_t* data, size_t size) {
  std::string all((const char*)data, size);
  MemReader r;
  // split on 0x01 into files: build.ninja, a.ninja, b.ninja
  const char* names[] = {"build.ninja", "a.ninja", "b.ninja"};
  size_t start = 0; int k = 0;
  for (size_t i = 0; i <= all.size() && k < 3; i++) if (i == all.size() || all[i] == '\x01') { r.files[names[k++]] = all.substr(start, i - start); start = i + 1; }
  try {
    State state; std::string err;
    ManifestParser p(&state, &r);
    if (p.Load("build.ninja", &err)) {
      for (Edge* e : state.edges_) { e->EvaluateCommand(true); e->GetBinding("description"); e->GetUnescapedDepfile(); e->GetUnescapedRspfile(); }
    }
  } catch (FatalExit&) {}
  return 0;
}
