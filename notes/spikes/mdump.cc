// SPIKE: load a multi-file manifest from JSON (stdin) and dump the resulting graph as JSON.
#include <iostream>
#include <map>
#include <string>
#include <nlohmann/json.hpp>
#include "disk_interface.h"
#include "graph.h"
#include "manifest_parser.h"
#include "state.h"
using json = nlohmann::json;
using namespace std;
struct MemReader : FileReader {
  map<string, string> files;
  Status ReadFile(const string& p, string* c, string* err) override {
    auto i = files.find(p);
    if (i == files.end()) { *err = "No such file or directory"; return NotFound; }
    *c = i->second; return Okay;
  }
};
int main() {
  json in; cin >> in;
  MemReader r;
  for (auto& [k, v] : in["files"].items()) r.files[k] = v.get<string>();
  State state; string err;
  ManifestParserOptions opts;
  if (in.value("phonycycle_err", false)) opts.phony_cycle_action_ = kPhonyCycleActionError;
  ManifestParser p(&state, &r, opts);
  json out;
  if (!p.Load(in.value("main", "build.ninja"), &err)) { out = {{"ok", false}, {"err", err}}; cout << out.dump() << endl; return 0; }
  out["ok"] = true;
  json edges = json::array();
  const char* keys[] = {"command", "description", "depfile", "deps", "dyndep", "generator", "restat", "rspfile", "rspfile_content", "msvc_deps_prefix", "pool"};
  for (Edge* e : state.edges_) {
    json je;
    je["rule"] = e->rule().name();
    je["pool"] = e->pool()->name();
    json outs = json::array(); for (Node* o : e->outputs_) outs.push_back(o->path());
    je["outs"] = outs; je["implicit_outs"] = e->implicit_outs_;
    json ins = json::array();
    for (size_t i = 0; i < e->inputs_.size(); ++i) ins.push_back({e->inputs_[i]->path(), e->is_order_only(i) ? "oo" : e->is_implicit(i) ? "imp" : "exp"});
    je["ins"] = ins;
    json vals = json::array(); for (Node* v : e->validations_) vals.push_back(v->path());
    je["validations"] = vals;
    json b;
    for (const char* k : keys) b[k] = e->GetBinding(k);
    b["depfile_raw"] = e->GetUnescapedDepfile(); b["rspfile_raw"] = e->GetUnescapedRspfile(); b["dyndep_raw"] = e->GetUnescapedDyndep();
    je["bindings"] = b;
    je["dyndep_node"] = e->dyndep_ ? json(e->dyndep_->path()) : json(nullptr);
    edges.push_back(je);
  }
  out["edges"] = edges;
  json pools; for (auto& kv : state.pools_) pools[kv.first] = kv.second->depth();
  out["pools"] = pools;
  json defs = json::array(); for (Node* n : state.defaults_) defs.push_back(n->path());
  out["defaults"] = defs;
  cout << out.dump() << endl;
  return 0;
}
