// Throwaway spike: can Builder be driven in-process with a virtual disk, a scripted runner and real logs?
#include <map>
#include <set>
#include <string>
#include <vector>
#include <cstdio>
#include <cstring>
#include <cerrno>
#include <chrono>
#include <unistd.h>
#include <sys/wait.h>
#include "build.h"
#include "build_log.h"
#include "deps_log.h"
#include "disk_interface.h"
#include "graph.h"
#include "manifest_parser.h"
#include "state.h"
#include "status.h"
using namespace std;

struct VFS : DiskInterface {
  struct E { long mtime; string content; };
  map<string, E> files; set<string> dirs; long now = 10;
  TimeStamp Stat(const string& p, string*) const override {
    auto i = files.find(p); if (i != files.end()) return i->second.mtime;
    if (dirs.count(p)) return 1; return 0; }
  bool WriteFile(const string& p, const string& c, bool) override { files[p] = {++now, c}; return true; }
  bool MakeDir(const string& p) override { dirs.insert(p); return true; }
  Status ReadFile(const string& p, string* c, string* err) override {
    auto i = files.find(p); if (i == files.end()) { *err = strerror(ENOENT); return NotFound; } *c = i->second.content; return Okay; }
  int RemoveFile(const string& p) override { return files.erase(p) ? 0 : 1; }
};
struct NullStatus : Status {
  void EdgeAddedToPlan(const Edge*) override {} void EdgeRemovedFromPlan(const Edge*) override {}
  void BuildEdgeStarted(const Edge*, int64_t) override {} 
  void BuildEdgeFinished(Edge*, int64_t, int64_t, ExitStatus, const string&) override {}
  void BuildStarted() override {} void BuildFinished() override {} void SetExplanations(Explanations*) override {}
  void NewLine() override {} void Info(const char*, ...) override {} void Warning(const char*, ...) override {} void Error(const char*, ...) override {}
};
struct Runner : CommandRunner {
  VFS* fs; size_t j; vector<Edge*> active; vector<string> ran; map<Edge*, string> pending;
  map<string, vector<string>> hidden; // out -> hidden reads
  Runner(VFS* f, size_t j) : fs(f), j(j) {}
  size_t CanRunMore() const override { return active.size() < j ? j - active.size() : 0; }
  bool StartCommand(Edge* e) override {
    string acc = e->rule().name() + "(";
    for (size_t i = 0; i < e->inputs_.size() - e->order_only_deps_; ++i) { auto f = fs->files.find(e->inputs_[i]->path()); acc += (f == fs->files.end() ? "<missing>" : f->second.content) + ","; }
    // hidden reads (only those NOT already in inputs_, to keep pure function identical)
    for (auto& h : hidden[e->outputs_[0]->path()]) { bool dup=false; for (auto* n : e->inputs_) if (n->path()==h) dup=true; if (!dup) { auto f = fs->files.find(h); acc += (f == fs->files.end() ? "<missing>" : f->second.content) + ","; } }
    acc += ")"; pending[e] = acc; active.push_back(e); ran.push_back(e->outputs_[0]->path()); return true; }
  BuildResult WaitForCommand() override {
    if (active.empty()) return BuildResult::Finished{};
    Edge* e = active.front(); active.erase(active.begin());
    bool restat = e->GetBindingBool("restat");
    for (auto* o : e->outputs_) { auto f = fs->files.find(o->path()); if (restat && f != fs->files.end() && f->second.content == pending[e]) continue; fs->WriteFile(o->path(), pending[e], false); }
    string df = e->GetUnescapedDepfile();
    if (!df.empty()) { string c = e->outputs_[0]->path() + ":"; for (auto& h : hidden[e->outputs_[0]->path()]) c += " " + h; c += "\n"; fs->WriteFile(df, c, false); }
    ExitStatus st = ExitSuccess; return BuildResult::CommandCompleted(e, st, string()); }
  vector<Edge*> GetActiveEdges() override { return active; }
  void Abort() override { active.clear(); }
};
struct U : BuildLogUser { bool IsPathDead(StringPiece) const override { return false; } };
struct MemReader : FileReader { string text; Status ReadFile(const string&, string* c, string*) override { *c = text; return Okay; } };

static vector<string> Invoke(VFS& fs, const string& manifest, const vector<string>& targets, map<string, vector<string>> hidden, int* status, string* err) {
  State state; MemReader r; r.text = manifest; ManifestParser p(&state, &r);
  if (!p.Load("build.ninja", err)) { *status = 99; return {}; }
  BuildLog bl; DepsLog dl; U u; string e2;
  bl.Load("/tmp/spike/.ninja_log", &e2); bl.OpenForWrite("/tmp/spike/.ninja_log", u, &e2);
  dl.Load("/tmp/spike/.ninja_deps", &state, &e2); dl.OpenForWrite("/tmp/spike/.ninja_deps", &e2);
  BuildConfig cfg; cfg.verbosity = BuildConfig::QUIET; cfg.parallelism = 2; NullStatus st;
  vector<string> ran;
  {
    Builder b(&state, cfg, &bl, &dl, &fs, &st, 0);
    Runner* run = new Runner(&fs, 2); run->hidden = hidden; b.command_runner_.reset(run);
    for (auto& t : targets) if (!b.AddTarget(t, err) && !err->empty()) { *status = 98; return {}; }
    if (b.AlreadyUpToDate()) { *status = 0; return {}; }
    *status = b.Build(err); ran = run->ran;
  }
  return ran;
}
int main(int argc, char** argv) {
  unlink("/tmp/spike/.ninja_log"); unlink("/tmp/spike/.ninja_deps");
  const char* manifest =
    "rule gen\n  command = gen $in $out\n  restat = 1\n"
    "rule cc\n  command = cc $in $out\n  depfile = $out.d\n  deps = gcc\n"
    "build mid: gen src\nbuild obj: cc mid\n";
  map<string, vector<string>> hidden = {{"obj", {"hdr"}}};
  VFS fs; fs.WriteFile("src", "s1", false); fs.WriteFile("hdr", "h1", false);
  int st; string err;
  auto pr = [&](const char* tag, vector<string> r) { printf("%s: status=%d ran=[", tag, st); for (auto& x : r) printf("%s ", x.c_str()); printf("] obj=%s err=%s\n", fs.files["obj"].content.c_str(), err.c_str()); };
  pr("b1", Invoke(fs, manifest, {"obj"}, hidden, &st, &err));
  pr("b2", Invoke(fs, manifest, {"obj"}, hidden, &st, &err));
  fs.WriteFile("hdr", "h2", false); fs.files["src"].mtime = ++fs.now;  // edit hdr, touch src
  pr("b3", Invoke(fs, manifest, {"obj"}, hidden, &st, &err));
  pr("b4", Invoke(fs, manifest, {"obj"}, hidden, &st, &err));
  // throughput: fork-per-invocation
  int n = argc > 1 ? atoi(argv[1]) : 200; auto t0 = chrono::steady_clock::now();
  for (int i = 0; i < n; i++) { pid_t p = fork(); if (!p) { VFS f2 = fs; int s; string e; f2.files["src"].mtime = ++f2.now; Invoke(f2, manifest, {"obj"}, hidden, &s, &e); _exit(0);} int ws; waitpid(p, &ws, 0); }
  double dt = chrono::duration<double>(chrono::steady_clock::now() - t0).count(); printf("%d forked invocations in %.2fs => %.0f/s\n", n, dt, n / dt);
}
