// SPIKE: batch DepfileParser: stdin JSON ["hex",...] -> [{"ok":..,"err":..,"outs":[hex],"ins":[hex]}]
#include <iostream>
#include <string>
#include <nlohmann/json.hpp>
#include "depfile_parser.h"
using json = nlohmann::json; using namespace std;
static string unhex(const string& h){string o;for(size_t i=0;i+1<h.size();i+=2)o.push_back((char)stoi(h.substr(i,2),nullptr,16));return o;}
static string hex(const char* p,size_t n){static const char*d="0123456789abcdef";string o;for(size_t i=0;i<n;i++){o.push_back(d[(unsigned char)p[i]>>4]);o.push_back(d[p[i]&15]);}return o;}
int main(){json in;cin>>in;json out=json::array();
 for(auto&h:in){string c=unhex(h.get<string>());string err;DepfileParser p;bool ok=p.Parse(&c,&err);json o=json::array(),i=json::array();
  for(auto&s:p.outs_)o.push_back(hex(s.str_,s.len_));for(auto&s:p.ins_)i.push_back(hex(s.str_,s.len_));out.push_back({{"ok",ok},{"err",err},{"outs",o},{"ins",i}});}
 cout<<out.dump()<<endl;}
