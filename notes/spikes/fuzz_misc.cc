#include <stdint.h>
#include <string>
#include "clparser.h"
#include "jobserver.h"
#include "elide_middle.h"
#include "util.h"
#include "json.h"
extern "C" int LLVMFuzzerTestOneInput(const uint8_t* data, size_t size) {
  if (!size) return 0;
  std::string s((const char*)data + 1, size - 1);
  switch (data[0] % 5) {
  case 0: { CLParser p; std::string out, err; p.Parse(s, data[0] & 8 ? "PFX: " : "", &out, &err); break; }
  case 1: { Jobserver::Config c; std::string err; Jobserver::ParseMakeFlagsValue(s.c_str(), &c, &err); break; }
  case 2: { std::string t = s; ElideMiddleInPlace(t, data[0] >> 3); break; }
  case 3: { StripAnsiEscapeCodes(s); EncodeJSONString(s); std::string r; GetShellEscapedString(s, &r); break; }
  case 4: { std::string t = s; uint64_t sb; if (!t.empty()) CanonicalizePath(&t, &sb); if (t.size() > s.size()) __builtin_trap(); break; }
  }
  return 0;
}
