#include <stdint.h>
#include <stdio.h>
#include <string>
#include <unistd.h>
#include "deps_log.h"
#include "graph.h"
#include "state.h"
extern "C" int LLVMFuzzerTestOneInput(const uint8_t* data, size_t size) {
  static std::string path = "/dev/shm/fzdeps." + std::to_string(getpid());
  FILE* f = fopen(path.c_str(), "wb");
  static const char hdr[] = "# ninjadeps\n\x04\x00\x00\x00";
  fwrite(hdr, 1, 16, f); fwrite(data, 1, size, f); fclose(f);
  State state; DepsLog log; std::string err;
  if (log.Load(path, &state, &err) == LOAD_SUCCESS) {
    for (Node* n : log.nodes()) { if (!n) continue; DepsLog::Deps* d = log.GetDeps(n); if (d) for (int i = 0; i < d->node_count; i++) (void)d->nodes[i]->path().size(); log.GetFirstReverseDepsNode(n); }
    std::string e2; log.Recompact(path, &e2);
  }
  return 0;
}
