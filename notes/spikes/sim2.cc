// SPIKE (throwaway, design validation): one ninja invocation driven in-process.
// Reads a JSON scenario on stdin, prints a JSON result on stdout.
#include <cerrno>
#include <cstdio>
#include <cstring>
#include <iostream>
#include <map>
#include <set>
#include <sstream>
#include <string>
#include <vector>
#include <unistd.h>

#include <nlohmann/json.hpp>

#include "build.h"
#include "build_log.h"
#include "deps_log.h"
#include "disk_interface.h"
#include "graph.h"
#include "manifest_parser.h"
#include "state.h"
#include "status.h"

using json = nlohmann::json;
using namespace std;

static uint64_t Fnv(const string& s) {
  uint64_t h = 1469598103934665603ull;
  for (unsigned char c : s) { h ^= c; h *= 1099511628211ull; }
  return h;
}
static string Hex(uint64_t v) { char b[32]; snprintf(b, sizeof b, "%016llx", (unsigned long long)v); return b; }

struct VFS : DiskInterface {
  struct E { int64_t mtime; string content; };
  map<string, E> files;
  set<string> dirs;
  int64_t now = 10;
  TimeStamp Stat(const string& p, string*) const override {
    auto i = files.find(p);
    if (i != files.end()) return i->second.mtime;
    if (dirs.count(p)) return 1;
    return 0;
  }
  bool WriteFile(const string& p, const string& c, bool) override { files[p] = {++now, c}; return true; }
  bool MakeDir(const string& p) override { dirs.insert(p); return true; }
  Status ReadFile(const string& p, string* c, string* err) override {
    auto i = files.find(p);
    if (i == files.end()) { *err = strerror(ENOENT); return NotFound; }
    *c = i->second.content; return Okay;
  }
  int RemoveFile(const string& p) override { return files.erase(p) ? 0 : 1; }
};

struct Sim;
struct RecStatus : Status {
  json* trace; int* seq;
  void ev(const char* k, const Edge* e) { trace->push_back({{"seq", (*seq)++}, {"ev", k}, {"edge", e->outputs_[0]->path()}}); }
  void EdgeAddedToPlan(const Edge* e) override { ev("plan+", e); }
  void EdgeRemovedFromPlan(const Edge* e) override { ev("plan-", e); }
  void BuildEdgeStarted(const Edge* e, int64_t) override { ev("st_started", e); }
  void BuildEdgeFinished(Edge* e, int64_t, int64_t, ExitStatus st, const string& out) override {
    trace->push_back({{"seq", (*seq)++}, {"ev", "st_finished"}, {"edge", e->outputs_[0]->path()}, {"status", (int)st}, {"output", out}});
  }
  void BuildStarted() override { trace->push_back({{"seq", (*seq)++}, {"ev", "build_started"}}); }
  void BuildFinished() override { trace->push_back({{"seq", (*seq)++}, {"ev", "build_finished"}}); }
  void SetExplanations(Explanations*) override {}
  void NewLine() override {}
  void Info(const char*, ...) override {}
  void Warning(const char*, ...) override {}
  void Error(const char*, ...) override {}
};

struct Running { Edge* edge; string key; json reads; string content; bool missing_read; };

struct Runner : CommandRunner {
  VFS* fs; size_t j; json spec; json* trace; int* seq;
  vector<Running> active;
  vector<int> schedule; size_t sched_pos = 0;
  json mid_edits; int interrupt_at = -1; int waits = 0;
  Runner(VFS* f, size_t j, const json& spec, json* t, int* s) : fs(f), j(j), spec(spec), trace(t), seq(s) {}
  size_t CanRunMore() const override {
    if (active.size() < j) return j - active.size();
    return 0;
  }
  json ActiveNames() const { json a = json::array(); for (auto& r : active) a.push_back(r.key); return a; }
  bool StartCommand(Edge* e) override {
    string key = e->outputs_[0]->path();
    json es = spec.contains(key) ? spec[key] : json::object();
    Running r{e, key, json::array(), "", false};
    string acc = key + "|" + es.value("variant", "") + "|";
    string rsp = e->GetUnescapedRspfile();
    if (!rsp.empty()) { auto f = fs->files.find(rsp); acc += "rsp=" + (f == fs->files.end() ? string("<norsp>") : f->second.content) + "|"; }
    for (auto& p : es.value("reads", json::array())) {
      auto f = fs->files.find(p.get<string>());
      if (f == fs->files.end()) { r.missing_read = true; acc += "<missing>,"; r.reads.push_back({p, nullptr}); }
      else { acc += f->second.content + ","; r.reads.push_back({p, f->second.content}); }
    }
    r.content = Hex(Fnv(acc));
    json dirs_ok = json::object();
    for (auto* o : e->outputs_) { string d = o->path(); size_t s = d.rfind('/'); dirs_ok[o->path()] = (s == string::npos) || fs->dirs.count(d.substr(0, s)) || fs->files.count(d.substr(0, s)); }
    json ev = {{"seq", (*seq)++}, {"ev", "start"}, {"edge", key}, {"cmd", e->EvaluateCommand()}, {"running", ActiveNames()},
               {"reads", r.reads}, {"dirs_ok", dirs_ok}, {"now", fs->now}, {"start_tick", e->command_start_time_}};
    if (!rsp.empty()) { auto f = fs->files.find(rsp); ev["rspfile"] = f == fs->files.end() ? json(nullptr) : json(f->second.content); }
    trace->push_back(ev);
    active.push_back(r);
    return true;
  }
  BuildResult WaitForCommand() override {
    ++waits;
    trace->push_back({{"seq", (*seq)++}, {"ev", "wait"}, {"running", ActiveNames()}, {"cap", j - active.size()}});
    if (active.empty()) return BuildResult::Finished{};
    if (interrupt_at >= 0 && waits == interrupt_at + 1) return BuildResult::Interrupted{};
    // mid-build edits scheduled for this wait index
    for (auto& me : mid_edits) if (me.value("at", -1) == waits - 1) {
      fs->WriteFile(me["path"], me["content"], false);
      trace->push_back({{"seq", (*seq)++}, {"ev", "mid_edit"}, {"path", me["path"]}});
    }
    size_t idx = 0;
    if (sched_pos < schedule.size()) idx = (size_t)schedule[sched_pos++] % active.size();
    Running r = active[idx]; active.erase(active.begin() + idx);
    Edge* e = r.edge;
    json es = spec.contains(r.key) ? spec[r.key] : json::object();
    int fail = es.value("fail", 0);
    bool fail_touch = es.value("fail_touch", false);
    if (r.missing_read && fail == 0) { fail = 1; fail_touch = false; }
    bool restat = e->GetBindingBool("restat");
    json wrote = json::array();
    if (fail == 0 || fail_touch) {
      string content = fail ? "garbage:" + r.content : r.content;
      for (auto* o : e->outputs_) {
        auto f = fs->files.find(o->path());
        if (restat && f != fs->files.end() && f->second.content == content + "@" + o->path()) continue;
        fs->WriteFile(o->path(), content + "@" + o->path(), false); wrote.push_back(o->path());
      }
      string df = e->GetUnescapedDepfile();
      string deps = e->GetBinding("deps");
      if (!df.empty() && deps != "msvc") {
        string c = e->outputs_[0]->path() + ":";
        for (auto& h : es.value("hidden", json::array())) c += " " + h.get<string>();
        c += "\n"; fs->WriteFile(df, c, false);
      }
    }
    string output = es.value("print", "");
    if (e->GetBinding("deps") == "msvc") for (auto& h : es.value("hidden", json::array())) output += "Note: including file: " + h.get<string>() + "\n";
    ExitStatus st = (ExitStatus)fail;
    trace->push_back({{"seq", (*seq)++}, {"ev", "finish"}, {"edge", r.key}, {"status", fail}, {"wrote", wrote}, {"now", fs->now}});
    return BuildResult::CommandCompleted(e, st, output);
  }
  vector<Edge*> GetActiveEdges() override { vector<Edge*> v; for (auto& r : active) v.push_back(r.edge); return v; }
  void Abort() override { active.clear(); }
};

struct LogUser : BuildLogUser {
  VFS* fs; State* st;
  bool IsPathDead(StringPiece s) const override {
    Node* n = st->LookupNode(s);
    if (n && n->in_edge()) return false;
    return fs->files.count(s.AsString()) == 0;
  }
};
struct MemReader : FileReader {
  VFS* fs;
  Status ReadFile(const string& p, string* c, string* err) override { return fs->ReadFile(p, c, err); }
};

int main() {
  json in; cin >> in;
  VFS fs; fs.now = in.value("now", 10);
  for (auto& [p, f] : in["files"].items()) fs.files[p] = {f["m"].get<int64_t>(), f["c"].get<string>()};
  for (auto& d : in.value("dirs", json::array())) fs.dirs.insert(d.get<string>());
  string logdir = in["logdir"];
  json trace = json::array(); int seq = 0; json res;
  State state;
  string err;
  {
    ManifestParser parser(&state, &fs);
    if (!parser.Load("build.ninja", &err)) { res = {{"phase", "parse"}, {"status", 1}, {"err", err}}; cout << res.dump() << endl; return 0; }
  }
  BuildLog bl; DepsLog dl; LogUser u; u.fs = &fs; u.st = &state; string e2;
  string lp = logdir + "/.ninja_log", dp = logdir + "/.ninja_deps";
  json warns = json::array();
  if (bl.Load(lp, &e2) == LOAD_ERROR) { res = {{"phase", "log"}, {"status", 1}, {"err", e2}}; cout << res.dump() << endl; return 0; }
  if (!e2.empty()) warns.push_back(e2); e2.clear();
  bl.OpenForWrite(lp, u, &e2);
  if (dl.Load(dp, &state, &e2) == LOAD_ERROR) { res = {{"phase", "deps"}, {"status", 1}, {"err", e2}}; cout << res.dump() << endl; return 0; }
  if (!e2.empty()) warns.push_back(e2); e2.clear();
  dl.OpenForWrite(dp, &e2);
  BuildConfig cfg; cfg.verbosity = BuildConfig::QUIET; cfg.parallelism = in.value("j", 1); cfg.failures_allowed = in.value("k", 1);
  RecStatus st; st.trace = &trace; st.seq = &seq;
  int status = 0; string phase = "build";
  {
    Builder b(&state, cfg, &bl, &dl, &fs, &st, 0);
    Runner* run = new Runner(&fs, cfg.parallelism, in.value("edges", json::object()), &trace, &seq);
    for (auto& s : in.value("schedule", json::array())) run->schedule.push_back(s.get<int>());
    run->mid_edits = in.value("mid_edits", json::array());
    run->interrupt_at = in.value("interrupt_at", -1);
    b.command_runner_.reset(run);
    bool ok = true;
    for (auto& t : in["targets"]) {
      string terr;
      if (!b.AddTarget(t.get<string>(), &terr) && !terr.empty()) { err = terr; ok = false; phase = "addtarget"; status = 1; break; }
    }
    if (ok) {
      if (b.AlreadyUpToDate()) { phase = "uptodate"; status = 0; }
      else status = b.Build(&err);
    }
  }
  bl.Close(); dl.Close();
  // Reload logs fresh to report their meaning.
  json jlog = json::object(), jdeps = json::object();
  {
    BuildLog bl2; string e3; bl2.Load(lp, &e3);
    for (auto& kv : bl2.entries()) jlog[kv.first.AsString()] = {{"hash", Hex(kv.second->command_hash)}, {"mtime", kv.second->mtime}};
    State s2; DepsLog dl2; dl2.Load(dp, &s2, &e3);
    for (Node* n : dl2.nodes()) { DepsLog::Deps* d = dl2.GetDeps(n); if (!d) continue; json ins = json::array(); for (int i = 0; i < d->node_count; i++) ins.push_back(d->nodes[i]->path()); jdeps[n->path()] = {{"mtime", d->mtime}, {"ins", ins}}; }
  }
  json files = json::object();
  for (auto& kv : fs.files) files[kv.first] = {{"c", kv.second.content}, {"m", kv.second.mtime}};
  json dirs = json::array(); for (auto& d : fs.dirs) dirs.push_back(d);
  res = {{"phase", phase}, {"status", status}, {"err", err}, {"trace", trace}, {"files", files}, {"dirs", dirs}, {"now", fs.now}, {"log", jlog}, {"deps", jdeps}, {"warnings", warns}};
  cout << res.dump() << endl;
  return 0;
}
