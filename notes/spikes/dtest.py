import json, subprocess, itertools, os, collections, sys
def gcc_munge(name):  # libcpp/mkdeps.c munge()
    out = bytearray(); i = 0
    for i, c in enumerate(name):
        ch = bytes([c])
        if ch in (b' ', b'\t'):
            j = i - 1
            while j >= 0 and name[j:j+1] == b'\\': out += b'\\'; j -= 1
            out += b'\\'
        elif ch == b'$': out += b'$'
        elif ch == b'#': out += b'\\'
        out += ch
    return bytes(out)
def clang_munge(name):  # clang DependencyFile.cpp PrintFilename (Make format)
    out = bytearray()
    for i, c in enumerate(name):
        ch = bytes([c])
        if ch == b' ':
            out += b'\\'
            j = i
            while j > 0 and name[j-1:j] == b'\\': out += b'\\'; j -= 1
        elif ch == b'$': out += b'$'
        elif ch == b'#': out += b'\\'
        out += ch
    return bytes(out)
def parse_many(contents):
    p = subprocess.run(['/tmp/spike/dparse'], input=json.dumps([c.hex() for c in contents]), capture_output=True, text=True, env=dict(os.environ, ASAN_OPTIONS='detect_leaks=0'))
    if p.returncode: print(p.stderr[-2000:]); sys.exit(1)
    return json.loads(p.stdout)
ALPHA = [b'a', b' ', b'\\', b'#', b'$', b':', b'%', b'.', b'/', b';', b'*', b'~', b'\t', b'=']
names = [b''.join(t) for n in (1, 2, 3, 4) for t in itertools.product(ALPHA, repeat=n)]
def representable(nm):
    if any(ch in nm for ch in (b';', b'*', b'\t')): return False      # D11 set
    if nm.endswith(b'\\') or nm.endswith(b':'): return False
    if b'\\:' in nm: return False
    return True
names = [n for n in names if representable(n)]
bad = collections.Counter(); ex = {}
for enc_name, enc in (('gcc', gcc_munge), ('clang', clang_munge)):
    for layout in ('one', 'cont'):
        docs = []
        for nm in names:
            if layout == 'one': docs.append(b'out.o: ' + enc(nm) + b' tail.h\n')
            else: docs.append(b'out.o: \\\n ' + enc(nm) + b' \\\n tail.h\n')
        res = parse_many(docs)
        for nm, r in zip(names, res):
            got = [bytes.fromhex(x) for x in r['ins']]
            if not r['ok'] or got != [nm, b'tail.h'] or [bytes.fromhex(x) for x in r['outs']] != [b'out.o']:
                # classify by offending char
                cls = 'other'
                for ch, label in ((b'\t', 'tab'), (b';', 'semi'), (b'*', 'star'), (b'\\', 'backslash'), (b':', 'colon'), (b'$', 'dollar'), (b'#', 'hash'), (b'%', 'pct')):
                    if ch in nm: cls = label; break
                if nm.endswith(b'\\'): cls = 'trailing-backslash'
                key = (enc_name, layout, cls); bad[key] += 1
                ex.setdefault(key, (nm, enc(nm), got, r['err']))
print('total names', len(names))
for k in sorted(bad): print(k, bad[k], ex[k])
