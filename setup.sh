#!/bin/sh
# MANIFEST.setup_cmd: build helper tools and warm the content-hashed build cache from /repo's working tree.
set -e
cd "$(dirname "$0")"
exec python3-vt -m verif.build warm
