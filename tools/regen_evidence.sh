#!/bin/bash
# regen_evidence.sh [tier]: run every registered check once against /repo itself (VERIF_SEED=1) so that the committed
# evidence files describe runs on the unchanged tree; prints one line per check and fails if any check is not green.
cd "$(dirname "$0")/.."
unset VERIF_REPO VERIF_EVIDENCE_DIR
tier=${1:-quick}; bad=0
for id in C01 C02 C03 C04 C05 C06 C07 C08 C09 C10 C11 C12 C13 C14 C15 C16 C17 C18 C19 C20; do
  out=$(VERIF_SEED=${VERIF_SEED:-1} ./check $id $tier 2>&1); rc=$?
  echo "$id rc=$rc $(echo "$out" | grep -v '^KNOWN-FINDING' | tail -1 | cut -c1-200)"
  [ $rc -eq 0 ] || { bad=1; echo "$out" | grep -A1 '^VIOLATION' | head -6 | cut -c1-400; }
done
exit $bad
