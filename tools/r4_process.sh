#!/bin/bash
# r4_process.sh <id>...: for each finished round-4 sub-agent: copy its deliverables to seeded4/<id>/, verify them in a
# fresh worktree (tools/verify_seed.sh), remove the agent's worktree, run the matching quick check against the patch.
cd "$(dirname "$(readlink -f "$0")")/.."
for id in "$@"; do
  src=/tmp/r4/out/$id; dst=seeded4/$id
  mkdir -p $dst /tmp/r4/res
  cp $src/patch.diff $src/demo.sh $src/meta.json $dst/ 2>/dev/null
  [ -f $src/oddities.txt ] && cp $src/oddities.txt $dst/
  git -C /repo worktree remove --force /tmp/r4/$id 2>/dev/null
  VS_JOBS=8 tools/verify_seed.sh r4$id $dst > /tmp/r4/res/$id.verify 2>&1
  s=$(date +%s)
  LINES_OUT=4 tools/mutrun.sh $dst/patch.diff $id quick > /tmp/r4/res/$id.sweep 2>&1; rc=$?
  echo "$id rc=$rc wall=$(( $(date +%s)-s ))s" >> /tmp/r4/res/$id.sweep
  echo "== $id verify: $(grep -c 'demo_patched_rc\[.\]: 1' /tmp/r4/res/$id.verify)/2 patched fail, $(grep -c 'demo_base_rc\[.\]: 0' /tmp/r4/res/$id.verify)/2 base pass, $(grep -o '[0-9]* tests from' /tmp/r4/res/$id.verify | head -1) $(grep -o 'PASSED  \] [0-9]* tests' /tmp/r4/res/$id.verify) | sweep rc=$rc"
done
