#!/bin/bash
# verify_seed.sh <id> <dir-with-patch.diff,demo.sh,meta.json>  -> prints a verification record (/tmp/vs/<id>.result)
# Independent confirmation in a fresh scratch worktree of /repo HEAD: patch applies, builds, the unedited test
# suite passes, the demo FAILs with the patch and PASSes without it.  The worktree is removed afterwards.
# meta.json "demo_arg": "binary" (default; demo.sh <ninja binary>) or "srcroot" (demo.sh <source tree root>).
set -u
id=$1; src=$(readlink -f $2)
wt=/tmp/vs/$id
rm -rf $wt; mkdir -p /tmp/vs
git -C /repo worktree prune
git -C /repo worktree add -q --detach $wt HEAD || exit 2
cd $wt
res=/tmp/vs/$id.result; : > $res
if ! git apply $src/patch.diff 2>>$res; then echo "apply: FAILED" >> $res; cd /; git -C /repo worktree remove --force $wt; cat $res; exit 1; fi
echo "apply: ok" >> $res
if cmake -S $wt -B $wt/build -G Ninja -DCMAKE_BUILD_TYPE=Release >/dev/null 2>&1 && cmake --build $wt/build -- -j${VS_JOBS:-6} >/dev/null 2>&1; then echo "build: ok" >> $res; else echo "build: FAILED" >> $res; fi
mkdir -p $wt/tmp
( cd $wt/build && TMPDIR=$wt/tmp ./ninja_test 2>&1 | tail -3 | tr '\n' ' ' ) > $wt/tests.txt
echo "tests: $(cat $wt/tests.txt)" >> $res
arg=$(python3 -c "import json;print(json.load(open('$src/meta.json')).get('demo_arg','binary'))" 2>/dev/null || echo binary)
if [ "$arg" = srcroot ]; then pa=$wt; ba=/repo; else pa=$wt/build/ninja; ba=/repo/_build/ninja; fi
chmod +x $src/demo.sh
for i in 1 2; do
TMPDIR=$wt/tmp timeout 300 $src/demo.sh $pa > $wt/demo_patched.txt 2>&1; echo "demo_patched_rc[$i]: $?" >> $res
TMPDIR=$wt/tmp timeout 300 $src/demo.sh $ba > $wt/demo_base.txt 2>&1; echo "demo_base_rc[$i]: $?" >> $res
done
tail -2 $wt/demo_patched.txt | cut -c1-300 | sed 's/^/  patched: /' >> $res
tail -1 $wt/demo_base.txt | cut -c1-300 | sed 's/^/  base: /' >> $res
cd /; git -C /repo worktree remove --force $wt
cat $res
