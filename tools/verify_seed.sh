#!/bin/bash
# verify_seed.sh <id> <outdir-with-patch.diff,demo.sh,meta.json>  -> copies to /verif/seeded/<id>/ with verification record
# Independent confirmation in a fresh scratch worktree of /repo HEAD: patch applies, builds, the unedited test
# suite passes, the demo FAILs with the patch and PASSes without it.  The worktree is removed afterwards.
set -u
id=$1; src=$2
wt=/tmp/vs/$id
rm -rf $wt; mkdir -p /tmp/vs
git -C /repo worktree add -q --detach $wt HEAD || exit 2
cd $wt
res=/tmp/vs/$id.result; : > $res
if ! git apply $src/patch.diff 2>>$res; then echo "apply: FAILED" >> $res; git -C /repo worktree remove --force $wt; exit 1; fi
echo "apply: ok" >> $res
if cmake -S $wt -B $wt/build -G Ninja -DCMAKE_BUILD_TYPE=Release >/dev/null 2>&1 && cmake --build $wt/build >/dev/null 2>&1; then echo "build: ok" >> $res; else echo "build: FAILED" >> $res; fi
mkdir -p $wt/tmp
( cd $wt/build && TMPDIR=$wt/tmp ./ninja_test 2>&1 | tail -3 | tr '\n' ' ' ) > $wt/tests.txt
echo "tests: $(cat $wt/tests.txt)" >> $res
TMPDIR=$wt/tmp timeout 300 $src/demo.sh $wt/build/ninja > $wt/demo_patched.txt 2>&1; echo "demo_patched_rc: $?" >> $res
TMPDIR=$wt/tmp timeout 300 $src/demo.sh /repo/_build/ninja > $wt/demo_base.txt 2>&1; echo "demo_base_rc: $?" >> $res
tail -2 $wt/demo_patched.txt | sed 's/^/  patched: /' >> $res
tail -1 $wt/demo_base.txt | sed 's/^/  base: /' >> $res
cd /; git -C /repo worktree remove --force $wt
cat $res
