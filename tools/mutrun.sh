#!/bin/bash
# mutrun.sh <patch.diff> <check-id> [tier]: run a check against a scratch copy of /repo's sources with the patch applied.
# exit status: that of the check (1 = violation reported = mutant caught).
set -u
patch=$(readlink -f $1); id=$2; tier=${3:-quick}
d=$(mktemp -d /tmp/mutrun.XXXXXX)
cp -r /repo/src $d/src
( cd $d && grep -v '^# breaks' $patch | patch -s -p1 ) || { echo "patch failed"; rm -rf $d; exit 2; }
cd "$(dirname "$(readlink -f "$0")")/.."
VERIF_EVIDENCE_DIR=$d/evidence VERIF_REPO=$d ./check $id $tier > $d/out.txt 2>&1
rc=$?
grep -v "^KNOWN-FINDING" $d/out.txt | tail -${LINES_OUT:-3}
rm -rf $d
exit $rc
