#!/bin/bash
# mutrun.sh <patch.diff> <check-id> [tier]: run a check against a scratch copy of /repo's sources with the patch applied
set -u
patch=$1; id=$2; tier=${3:-quick}
d=$(mktemp -d /tmp/mutrun.XXXXXX)
cp -r /repo/src $d/src
( cd $d && patch -s -p1 < $patch ) || { echo "patch failed"; rm -rf $d; exit 2; }
cd /verif
VERIF_REPO=$d ./check $id $tier 2>&1 | grep -v "^KNOWN-FINDING" | tail -${LINES_OUT:-4}
rc=${PIPESTATUS[0]}
rm -rf $d
exit $rc
