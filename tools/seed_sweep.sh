#!/bin/bash
# seed_sweep.sh "<seeds>" "<ids>" [tier]: run checks under several VERIF_SEED values; prints one line per run
cd "$(dirname "$0")/.."
for s in $1; do for p in $2; do
  out=$(VERIF_SEED=$s ./check $p ${3:-quick} 2>&1); rc=$?
  echo "seed=$s $p rc=$rc $(echo "$out" | grep -v KNOWN-FINDING | tail -1 | cut -c1-200)"
  if [ $rc -ne 0 ]; then echo "$out" | grep -A1 "^VIOLATION\|HARNESS" | cut -c1-700 | head -12; fi
done; done
