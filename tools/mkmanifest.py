#!/usr/bin/env python3
"""Regenerates MANIFEST.json from the table below (single source of truth for what is claimed)."""
import json, os, subprocess
ROOT = os.path.dirname(os.path.dirname(os.path.abspath(__file__)))
SIM_NOTE = ("Trusted base: the Python reference models (verif/models.py), the SIM runner's command semantics (cxx/probe_sim.h), "
            "Hypothesis. The SIM part drives the real Builder/Plan/DependencyScan/BuildLog/DepsLog in-process with a scripted command runner; "
            "RealCommandRunner, SubprocessSet and ninja.cc are reached only by the parts that run the real binary (vtool commands in a tmpfs directory), "
            "which C01-C07, C16, C18, C19 and C20 have and C10, C11, C17 do not. Saved shrunk cases under regress/ are replayed first, outside Hypothesis.")
CHECKS = {
 "C01": dict(level="exploration", engine="SIM+E2E", technique="model-based property testing (Hypothesis): generated graphs x histories x schedules, content oracle = clean-build evaluator",
             text="Generated-input search with an explicit oracle: after every successful build the content of every node in the requested closure equals a pure clean-build evaluator of the current sources/manifest. Exploration, not proof: thousands of histories per run, shrunk on failure.",
             ref="4/C01", note=SIM_NOTE),
 "C02": dict(level="exploration", engine="SIM+E2E", technique="model-based property testing: every successful build is repeated and must start nothing",
             text="Same histories as C01; each successful build is immediately repeated and must be a no-op.", ref="4/C02", note=SIM_NOTE),
 "C03": dict(level="exploration", engine="SIM+E2E", technique="differential testing against a reference make-semantics model (exact run set, both directions)",
             text="The set of commands started by every failure-free incremental build is compared for equality with an independent make-semantics model; known root causes are attributed by counterfactual switches of that model only.", ref="4/C03", note=SIM_NOTE),
 "C04": dict(level="exploration", engine="SIM+E2E", technique="trace-invariant property testing over harness-owned schedules",
             text="At every StartCommand the trace must show all producers finished, directories present and the response file in place; schedules are chosen by the generator.", ref="4/C04", note=SIM_NOTE),
 "C05": dict(level="fault_enumeration", engine="SIM+E2E", technique="fault-injection property testing: generated fault maps x -k x -j x schedules with trace and log invariants",
             text="Commands are made to fail (several exit codes, with/without touching outputs) and the containment, exit-status, logging and retry clauses are checked on the trace and on the re-loaded logs.", ref="4/C05", note=SIM_NOTE),
 "C06": dict(level="exploration", engine="SIM+E2E", technique="trace-invariant property testing (limits, once-only, retrospective no-idle, termination incl. 'success implies everything needed was started'); all completion orders enumerated for small graphs; real binary on wide graphs whose commands close their output and keep running (live commands <= -j and pool depth); real binary as a fifo-jobserver client (tokens returned on every path incl. stat errors after a command and an unknown deps type, concurrency, must terminate) and under -l with a scripted load average (LD_PRELOAD getloadavg shim)",
             text="Concurrency and pool limits, at-most-once, no idle slot and termination are checked on traces of generated builds with pools, faults and schedules.", ref="4/C06", note=SIM_NOTE),
 "C07": dict(level="fault_enumeration", engine="SIM+E2E", technique="fault-injection property testing: generated histories stopped at enumerated crash points, runner boundaries, interrupts (SIM) and by real signals / SIGKILL / hook crash points (real binary), recovery compared with the clean-build evaluator",
             text="The last build of a generated history is stopped at one of 13 named points between persistence steps (1st-3rd hit), at any command-runner call, or by an interrupt with commands that did or did not modify their outputs; the real binary is additionally hit by SIGINT/SIGTERM/SIGHUP, SIGKILL of the tree and crashes inside -t recompact. The next invocation must start, succeed, reproduce the clean tree and converge; the interrupt contract (130, lock file, modified outputs removed, children gone) is checked.",
             ref="4/C07", note=SIM_NOTE + " Crash points are the guarded NINJA_VERIF_POINT hooks; power loss is out of reach."),
 "C08": dict(level="fault_enumeration", engine="LOG", technique="stateful property testing (Hypothesis) of BuildLog sessions with every-offset truncation, oracle = reference fold over complete lines plus a session model; the real binary's recompaction (explicit and automatic) after statements were removed or renamed must keep the record of every output still in the manifest or on disk (the record completely written last for an output and not cut off since must rule)",
             text="Generated multi-session histories on a real .ninja_log; the file is cut at every byte offset (exhaustive for files up to 4 KiB) and torn tails are continued by later sessions; what ninja loads is compared with an independent fold over the complete lines of the same bytes; recompaction, restat and unsupported versions are checked clause by clause.",
             ref="4/C08", note="Trusted base: M-buildlog in verif/props/C08.py, the probe's op interpreter (cxx/probe_misc.h). Command hashes are ninja's own; lines >= 256 KiB may be dropped (documented)."),
 "C09": dict(level="fault_enumeration", engine="LOG", technique="stateful property testing of DepsLog sessions with every-offset truncation, garbage tails and structured damage, oracle = independent binary-format parser + recorded-deps model",
             text="Generated multi-session histories on a real .ninja_deps; every truncation offset (exhaustive up to 3000 bytes), random tails and structurally malformed records after a valid prefix, each continued by an appending session and a reload; deps loaded == fold of complete well-formed records == most recently recorded deps; file size after recovery == end of last good record.",
             ref="4/C09", note="Trusted base: M-depslog parser in verif/props/C09.py, the probe's op interpreter. Two genuine defects found by this check were repaired (fix: commits 33f8d0f, 9f3b7db)."),
 "C18": dict(level="exploration", engine="SIM+E2E", technique="model-based property testing of the Cleaner on generated graphs, tree states and scopes, oracle = reference scope computation (both directions); `ninja -t cleandead` of the real binary after removed statements, plain / after -t recompact / with a log due for recompaction",
             text="After a generated history the tree is perturbed and one clean scope (all, -g, targets, rules, cleandead after statements were removed; each also with -n) runs through the real Cleaner on the virtual disk with the real logs; removed files must equal the existing files of the scope, and the following build must reproduce the clean tree.",
             ref="4/C18", note=SIM_NOTE),
 "C19": dict(level="exploration", engine="E2E", technique="property testing of the real binary's tools: snapshot-equality and model-agreement oracles on generated graphs/states/tools, strict JSON recogniser with byte-exact round trip for compdb",
             text="Each generated (graph, history, tree state, tool, target subset) runs one of 14 read-only tool invocations of the real binary: no command may execute, every file (content+mtime) and both logs' meaning must be unchanged, -n/-t commands listings must match the reference model in dependency order, and the real build that follows is judged by the C01/C03 oracles. compdb output with commands over every byte value must pass a strict RFC 8259 recogniser and round-trip.",
             ref="4/C19", note="Trusted base: verif/e2e.py, vtool, the reference models, the JSON recogniser in verif/props/C19.py."),
 "C20": dict(level="exploration", engine="E2E+SIM", technique="transcript-grammar oracle over the real binary's piped stdout for generated graphs/outputs/-j/failures/formats, plus counter invariants on the raw Status call sequence in the SIM",
             text="Commands print generated byte strings (tags, NUL, high bytes, CSI and non-CSI escapes, with/without final newline) in several chunks; a transcript parser accepts only status line, FAILED header + command line, the command's bytes as one contiguous block and one separating newline, and checks the progress counters; the SIM checks started/finished/total on every build of generated histories.",
             ref="4/C20", note="Trusted base: the transcript parser in verif/props/C20.py, vtool. Two genuine defects found here were repaired (fix: 827f6bd, 37dc2d7). Smart-terminal (pty) rendering is not covered."),
 "C10": dict(level="exploration", engine="SIM", technique="metamorphic testing: discovered dependencies vs the same dependencies declared as implicit inputs, same generated history on both, incl. a source edited while the build runs (judged on the run that follows)",
             text="Each generated history runs twice in lockstep: on the graph whose commands report hidden reads through depfile/deps=gcc/deps=msvc (sources and generated files, canonical and -Iinc/.. style spellings) and on the variant with those reads written as implicit inputs; result, commands run and contents must agree per invocation. Differences that the counterfactual model attributes to known finding D1 are listed, not hidden.",
             ref="4/C10", note=SIM_NOTE),
 "C11": dict(level="exploration", engine="SIM", technique="metamorphic testing (dyndep vs inlined manifest) plus mutation/truncation of dyndep files against a by-construction validity oracle",
             text="Graphs with 1-2 dyndep files (present or produced mid-build; adding inputs, outputs, restat; build-level and rule-level bindings) run next to the manifest with that information inlined; 13 structural mutations and truncation (every offset for a fixed family) must make the build fail without running the bound statements.",
             ref="4/C11", note=SIM_NOTE + " Five genuine defects found here were repaired (fix: c03a4e2, b94642d, 27f5f3f, 64ea95a and D13's 9d5201e); D18 is a listed known finding."),
 "C17": dict(level="exploration", engine="SIM", technique="bounded-exhaustive enumeration of small graphs plus generated cycle injection (manifest, depfile, deps log, dyndep incl. two chained dyndep files), oracle = reference cycle finder on the needed closure",
             text="Every 2-statement graph over 3 files (thorough: 4) with every input kind and validations, every 3-statement graph with explicit/order-only inputs, every target; plus generated graphs with one injected cycle (manifest, depfile, deps log, dyndep at scan time or mid-build, phony self-reference in both -w modes) or the acyclic validation control; the printed cycle is verified hop by hop and no statement of the cycle may start once it is known.",
             ref="4/C17", note=SIM_NOTE + " Known findings D1 (cycle through discovered inputs of an already-dirty statement) and D19 (dyndep-added output, consumer not re-scanned) are attributed by narrow predicates."),
 "C12": dict(level="exploration", engine="manifest-diff", technique="differential testing of ManifestParser against a reference evaluator written from the manual, on grammar-generated multi-file programs and single-token mutants",
             text="Every generated program (and up to four single-token mutants of it) is parsed by ninja and by an independent ~450-line evaluator of the documented language; accept/reject, the complete graph dump (outputs, kind of every input, validations, pools, defaults, every evaluated binding) and the file:line of each diagnostic must agree, in both -w phonycycle modes.",
             ref="4/C12", note="Trusted base: verif/mref.py (reference, the manual is the arbiter on disagreements), the probe's graph dump. Two genuine defects found here were repaired (fix: b86922a, 9d5201e)."),
 "C13": dict(level="exploration", engine="enumerator+libFuzzer", technique="coverage-guided fuzzing (libFuzzer, ASan+UBSan) of every input format with the parsed result put to use, plus exhaustive token-alphabet enumeration",
             text="Six libFuzzer targets (manifest with includes, dyndep, depfile, .ninja_log, .ninja_deps incl. structure-aware records, /showIncludes + MAKEFLAGS + status formats + string helpers) whose iterations also use what was parsed (bindings, dirty scan, dry-run build, GetDeps, recompaction, reload); every sequence of up to N tokens over each text format's token alphabet; regression inputs for repaired findings. Sanitizer reports, aborts and 20 s hangs (replayed 3x) are violations.",
             ref="4/C13", note="Trusted base: ASan/UBSan/libFuzzer; the Fatal() hook (guarded) turns 'reports an error and exits' into a countable outcome. Three genuine defects found here were repaired (fix: 9f3b7db, f3ef2ee, 6887975)."),
 "C15": dict(level="exploration", engine="enumerator+libFuzzer", technique="round-trip testing: encode names in the GCC/Clang Makefile dialect, parse, compare; exhaustive over short names x encoders x layouts plus structure-aware fuzzing",
             text="Every name up to L characters over a 16-character special alphabet, in three positions, two encoders and eight layouts, must be read back exactly; libFuzzer decodes bytes into name lists for the same oracle; rejection clauses checked; the byte class behind known finding D11 is excluded by construction and exercised separately.",
             ref="4/C15", note="Trusted base: the encoder models in cxx/ref_depfile.h (ports of mkdeps.c munge and Clang's PrintFilename)."),
 "C16": dict(level="exploration", engine="shell", technique="exhaustive + random differential test against the real /bin/sh: ninja's $in/$out/$in_newline text must be read back as exactly the names, as arguments and as the command word (probe + sh, and the real binary)",
             text="All 1- and 2-byte names and all 3-byte names over the shell-special alphabet (and random names up to 4 KiB in lists of 1-5) are substituted by ninja and handed to /bin/sh -c; a helper prints what it received; directories with decoy files and a private HOME make globbing, expansion and injection visible.",
             ref="4/C16", note="Trusted base: /bin/sh (dash), cxx/argdump.c. Level 2 (manifest -> real binary -> rspfile life-cycle incl. empty content over a stale file) and level 3 (name as the command word through the real binary) run the rel binary."),
 "C14": dict(level="exploration", engine="enumerator+libFuzzer", technique="exhaustive enumeration over {a,b,.,/}^<=L plus coverage-guided fuzzing, oracle = reference normaliser + laws; manifest-level identity of generated spellings in every position of a build statement against the manifest reference",
             text="Every string over the structural alphabet up to a bound is compared with a 12-line reference normaliser and the algebraic laws; libFuzzer extends to arbitrary bytes and very long paths with the same oracle inside the target.", ref="4/C14",
             note="Trusted base: cxx/ref_canon.h (reference), ASan/UBSan. POSIX build only."),
}
ENGINES = [
 dict(name="SIM", path="cxx/probe_sim.h + verif/simrun.py", serves_properties=["C01", "C02", "C03", "C04", "C05", "C06", "C07", "C10", "C11", "C17", "C18"],
      kind_free_text="in-process build simulator: virtual disk with logical clock, scripted command runner owning the schedule, real log files; forked per request by the probe server"),
 dict(name="E2E", path="verif/e2e.py, cxx/vtool.c", serves_properties=["C01", "C02", "C03", "C04", "C05", "C06", "C07", "C16", "C18", "C19", "C20"],
      kind_free_text="the real ninja binary (built from the working tree, hooks compiled in but inert) in a scratch directory, commands are the vtool helper with the SIM's content function; jobserver fifo, signals, crash points via environment"),
 dict(name="SIM+E2E", path="verif/props/simprops.py, C06.py, C07.py, C18.py", serves_properties=["C01", "C02", "C03", "C04", "C05", "C06", "C07", "C18"],
      kind_free_text="both engines: the SIM campaigns (incl. all-schedules enumeration and the late-targets runner) plus the same oracles through the real binary; a real binary that does not terminate within the limit is a finding, not a harness error"),
 dict(name="E2E+SIM", path="verif/props/C20.py", serves_properties=["C20"], kind_free_text="both engines"),
 dict(name="LOG", path="cxx/probe_misc.h (buildlog/depslog op interpreters) + verif/props/C08.py, C09.py", serves_properties=["C08", "C09"],
      kind_free_text="real BuildLog/DepsLog objects on real files driven by generated op lists inside the forked probe; files are cut from outside at every offset"),
 dict(name="manifest-diff", path="verif/mref.py, verif/props/C12.py, cxx/probe_misc.h (manifest)", serves_properties=["C12"], kind_free_text="reference evaluator vs ManifestParser graph dump"),
 dict(name="shell", path="verif/props/C16.py, cxx/argdump.c", serves_properties=["C16"], kind_free_text="ninja's substituted command text executed by the real /bin/sh"),
 dict(name="enumerator+libFuzzer", path="cxx/enum_*.cc, cxx/fuzz_*.cc, verif/fuzz.py", serves_properties=["C13", "C14", "C15"],
      kind_free_text="bounded-exhaustive enumerators and libFuzzer targets with the semantic oracle inside the target"),
]


def main():
    props = [json.loads(l) for l in open(os.path.join(ROOT, "properties.jsonl"))]
    hooks_commits = subprocess.run(["git", "-C", "/repo", "log", "--format=%h %s", "--grep=^verif hooks"], capture_output=True, text=True).stdout.strip().splitlines()
    m = dict(version=1, setup_cmd="./setup.sh",
             hooks=dict(guard="NINJA_VERIF",
                        enable="verif/build.py compiles /repo/src/*.cc from the working tree with -DNINJA_VERIF=1 into /verif/.build (content-hashed); NINJA_VERIF_POINT crash points and the Fatal() hook are inert unless a harness installs a callback or sets VERIF_CRASH_POINT",
                        baseline_off_cmd="cmake --build /repo/_build && ctest --test-dir /repo/_build -j8 --timeout 900",
                        source_commits=[c.split()[0] for c in hooks_commits], add_only=True),
             engines=ENGINES, checks=[], not_applicable=[])
    for p in props:
        c = CHECKS.get(p["id"])
        if not c:
            m["not_applicable"].append(dict(property_id=p["id"], reason="check not built yet (work in progress; DESIGN.md section 4 describes the planned generated-input check)"))
            continue
        m["checks"].append(dict(property_id=p["id"], quick_cmd="./check %s quick" % p["id"], thorough_cmd="./check %s thorough" % p["id"],
                                evidence_file="evidence/%s.json" % p["id"], replay_cmd_template="./check %s --replay {path}" % p["id"],
                                engine=c["engine"], level_claimed=dict(category=c["level"], text=c["text"], design_ref="DESIGN.md " + c["ref"]),
                                level_note=c["note"], technique=c["technique"]))
    json.dump(m, open(os.path.join(ROOT, "MANIFEST.json"), "w"), indent=1)
    print("checks:", [c["property_id"] for c in m["checks"]], "n/a:", len(m["not_applicable"]))


if __name__ == "__main__":
    main()
