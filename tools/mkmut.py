#!/usr/bin/env python3
"""mkmut.py <name> <props> <file> <old> <new> [<file2> <old2> <new2> ...]: create mutants/<name>.diff (unified diff against /repo HEAD's working tree)
by exact string replacement; used to build the sensitivity suite (tools/selftest_mutants.sh)."""
import sys, os, subprocess, tempfile, shutil
name, props = sys.argv[1], sys.argv[2]
triples = sys.argv[3:]
d = tempfile.mkdtemp(prefix="mkmut")
try:
    shutil.copytree("/repo/src", d + "/a/src")
    shutil.copytree("/repo/src", d + "/b/src")
    for i in range(0, len(triples), 3):
        f, old, new = triples[i:i + 3]
        p = d + "/b/" + f
        s = open(p).read()
        old = old.encode().decode('unicode_escape'); new = new.encode().decode('unicode_escape')
        assert s.count(old) == 1, (f, old, s.count(old))
        open(p, "w").write(s.replace(old, new))
    out = subprocess.run(["diff", "-ru", "a/src", "b/src"], cwd=d, capture_output=True, text=True).stdout
    assert out
    root = os.path.dirname(os.path.dirname(os.path.abspath(__file__)))
    open(os.path.join(root, "mutants", name + ".diff"), "w").write("# breaks: %s\n" % props + out)
    print("wrote mutants/%s.diff" % name)
finally:
    shutil.rmtree(d)
