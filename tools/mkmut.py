#!/usr/bin/env python3
"""mkmut.py: (re)creates mutants/*.diff — the sensitivity suite — from the table below by exact string replacement on
/repo's working tree. Each mutant breaks the property named in its first line while compiling."""
import os, shutil, subprocess, sys, tempfile
ROOT = os.path.dirname(os.path.dirname(os.path.abspath(__file__)))
M = [
 # name, property, file, old, new
 ("C01_a_log_mtime_not_compared", "C01", "src/graph.cc", "      if (most_recent_input && entry->mtime < most_recent_input->mtime()) {", "      if (false && most_recent_input && entry->mtime < most_recent_input->mtime()) {"),
 ("C01_b_record_end_time", "C01", "src/build.cc", "  if (!config_.dry_run) {\n    const bool restat = edge->GetBindingBool(\"restat\");\n    const bool generator = edge->GetBindingBool(\"generator\");", "  if (!config_.dry_run) {\n    const bool restat = true;\n    const bool generator = edge->GetBindingBool(\"generator\");"),
 ("C01_c_cleannode_ignores_deps_missing", "C01", "src/build.cc", "    if ((*oe)->deps_missing_)\n      continue;\n", ""),
 ("C02_d_phony_mtime_not_propagated", "C02", "src/graph.cc", "    output->UpdatePhonyMtime(most_recent_input->mtime());", "    (void)output;"),
 ("C03_a_order_only_dirties", "C03", "src/graph.cc", "    if (!edge->is_order_only(i - edge->inputs_.cbegin())) {", "    if (true) {"),
 ("C03_c_generator_compares_hash", "C03", "src/graph.cc", "      IF_FIRSTRUN (!generator_ && commandHash_() != entry->command_hash) {", "      IF_FIRSTRUN (commandHash_() != entry->command_hash) {"),
 ("C04_b_failed_edge_outputs_ready", "C04", "src/build.cc", "  if (result != kEdgeSucceeded)\n    return true;\n\n  if (directly_wanted)", "  if (result != kEdgeSucceeded && !directly_wanted)\n    return true;\n\n  if (directly_wanted)"),
 ("C04_d_no_makedirs_for_depfile", "C04", "src/build.cc", "  if (!depfile.empty() && !disk_interface_->MakeDirs(depfile))\n    return false;", "  (void)depfile;"),
 ("C05_b_failure_budget_never_decremented", "C05", "src/build.cc", "            failures_allowed--;", "            (void)failures_allowed;"),
 ("C06_b_pool_off_by_one", "C06", "src/state.cc", "    if (current_use_ + edge->weight() > depth_)", "    if (current_use_ + edge->weight() > depth_ + 1)"),
 ("C07_a_cleanup_keeps_outputs", "C07", "src/build.cc", "        if (!depfile.empty() || (*o)->mtime() != new_mtime)\n          disk_interface_->RemoveFile((*o)->path());", "        if (!depfile.empty() && (*o)->mtime() != new_mtime)\n          disk_interface_->RemoveFile((*o)->path());"),
 ("C08_b_first_wins", "C08", "src/build_log.cc", "    if (i != entries_.end()) {\n      entry = i->second.get();\n    } else {\n      entry = new LogEntry(std::move(output));", "    if (i != entries_.end()) {\n      ++total_entry_count;\n      continue;\n    } else {\n      entry = new LogEntry(std::move(output));"),
 ("C08_c_recompact_inverted", "C08", "src/build_log.cc", "    if (user.IsPathDead(pair.first)) {\n      dead_outputs.push_back(pair.first);", "    if (!user.IsPathDead(pair.first)) {\n      dead_outputs.push_back(pair.first);"),
 ("C09_b_truncate_off_by_4", "C09", "src/deps_log.cc", "    fclose(f);\n\n    if (!Truncate(path, offset, err))\n      return LOAD_ERROR;", "    fclose(f);\n\n    if (!Truncate(path, offset + 4, err))\n      return LOAD_ERROR;"),
 ("C09_c_first_record_wins", "C09", "src/deps_log.cc", "  bool delete_old = deps_[out_id] != NULL;\n  if (delete_old)\n    delete deps_[out_id];\n  deps_[out_id] = deps;\n  return delete_old;", "  bool delete_old = deps_[out_id] != NULL;\n  if (delete_old) {\n    delete deps;\n    return true;\n  }\n  deps_[out_id] = deps;\n  return delete_old;"),
 ("C09_d_recompact_keeps_dead", "C09", "src/deps_log.cc", "    if (!IsDepsEntryLiveFor(nodes_[old_id]))\n      continue;", "    if (!IsDepsEntryLiveFor(nodes_[old_id]) && deps->node_count == 0)\n      continue;"),
 ("C10_a_deps_valid_when_output_newer", "C10", "src/graph.cc", "  if (output->mtime() > deps->mtime) {\n    explanations_.Record(output,\n                         \"stored deps info out of date for '%s' (%\" PRId64\n                         \" vs %\" PRId64 \")\",\n                         output->path().c_str(), deps->mtime, output->mtime());\n    return std::nullopt;\n  }", "  if (false) {\n    return std::nullopt;\n  }"),
 ("C10_c_extractdeps_drops_last", "C10", "src/build.cc", "    deps_nodes->reserve(deps.ins_.size());\n    for (vector<StringPiece>::iterator i = deps.ins_.begin();\n         i != deps.ins_.end(); ++i) {", "    deps_nodes->reserve(deps.ins_.size());\n    if (deps.ins_.size() > 1) deps.ins_.pop_back();\n    for (vector<StringPiece>::iterator i = deps.ins_.begin();\n         i != deps.ins_.end(); ++i) {"),
 ("C11_c_unused_entry_check_removed", "C11", "src/dyndep.cc", None, None),
 ("C12_b_subninja_shares_scope", "C12", "src/manifest_parser.cc", "  if (new_scope) {\n    subparser_->env_ = new BindingEnv(env_);\n  } else {", "  if (false) {\n    subparser_->env_ = new BindingEnv(env_);\n  } else {"),
 ("C12_e_duplicate_output_accepted", "C12", "src/state.cc", None, None),
 ("C14_a_component_count_not_decremented", "C14", "src/util.cc", "            // Move back to start of previous component.\n            --component_count;", "            // Move back to start of previous component."),
 ("C14_b_trailing_slash_kept", "C14", "src/util.cc", "  if (dst > dst_start && IsPathSeparator(dst[-1]))\n    dst--;", "  (void)dst_start;"),
 ("C16_a_quote_escape_broken", "C16", "src/util.cc", None, None),
 ("C16_c_rspfile_removed_on_failure", "C16", "src/build.cc", "  // The rest of this function only applies to successful commands.\n  if (!result.success()) {\n    return plan_.EdgeFinished(edge, Plan::kEdgeFailed, err);\n  }", "  // The rest of this function only applies to successful commands.\n  if (!result.success()) {\n    disk_interface_->RemoveFile(edge->GetUnescapedRspfile());\n    return plan_.EdgeFinished(edge, Plan::kEdgeFailed, err);\n  }"),
 ("C17_a_verifydag_disabled", "C17", "src/graph.cc", "  // If we have no temporary mark on the edge then we do not yet have a cycle.\n  if (edge->mark_ != Edge::VisitInStack)\n    return true;", "  // If we have no temporary mark on the edge then we do not yet have a cycle.\n  if (edge->mark_ != Edge::VisitInStack || stack->size() > 2)\n    return true;"),
 ("C18_a_generator_not_exempt", "C18", "src/clean.cc", "    if (!generator && (*e)->GetBindingBool(\"generator\"))\n      continue;\n    for", "    for"),
 ("C18_c_depfile_not_removed", "C18", "src/clean.cc", "  string depfile = edge->GetUnescapedDepfile();\n  if (!depfile.empty())\n    Remove(depfile);", "  string depfile = edge->GetUnescapedDepfile();\n  (void)depfile;"),
 ("C19_c_json_control_chars_unescaped", "C19", "src/json.cc", None, None),
 ("C20_d_failed_line_omitted", "C20", "src/status_printer.cc", "        printer_.PrintOnNewLine(failed + outputs + \"\\n\");", "        printer_.PrintOnNewLine(outputs + \"\\n\");"),
 ("C20_b_removed_from_plan_not_reported", "C20", "src/build.cc", "          if (builder_)\n            builder_->status_->EdgeRemovedFromPlan(*oe);", "          (void)builder_;"),
 ("C15_c_dedupe_removed", "C15", "src/depfile_parser.cc", "      if (pos == ins_.end()) {\n        if (is_dependency) {", "      if (true) {\n        if (is_dependency) {"),
 ("C13_a_clparser_oob", "C13", "src/clparser.cc", None, None),
]


def main():
    os.makedirs(os.path.join(ROOT, "mutants"), exist_ok=True)
    made = 0
    for name, prop, f, old, new in M:
        if old is None:
            continue
        d = tempfile.mkdtemp(prefix="mkmut")
        try:
            shutil.copytree("/repo/src", d + "/a/src")
            shutil.copytree("/repo/src", d + "/b/src")
            p = d + "/b/" + f
            s = open(p).read()
            if s.count(old) != 1:
                print("SKIP %s: pattern occurs %d times in %s" % (name, s.count(old), f))
                continue
            open(p, "w").write(s.replace(old, new))
            out = subprocess.run(["diff", "-ru", "a/src", "b/src"], cwd=d, capture_output=True, text=True).stdout
            open(os.path.join(ROOT, "mutants", name + ".diff"), "w").write("# breaks: %s\n" % prop + out)
            made += 1
        finally:
            shutil.rmtree(d)
    print("wrote %d mutants" % made)


if __name__ == "__main__":
    main()
