#!/bin/bash
# final_seeded_sweep.sh [dir ...]: the brief's own procedure, on /repo itself: for every seeded change
#   git -C /repo apply <patch>; run the quick check of the property it breaks; git -C /repo checkout -- .
# /repo is restored after every change (also when the run is interrupted). Must not run while a `vp run` is active
# (those build from /repo). Evidence of these runs is kept out of /verif/evidence.
cd "$(dirname "$0")/.."
restore() { git -C /repo checkout -- . ; }
trap restore EXIT INT TERM
if [ -n "$(git -C /repo status --porcelain -- src)" ]; then echo "/repo/src is not clean - refusing"; exit 2; fi
export VERIF_EVIDENCE_DIR=${VERIF_EVIDENCE_DIR:-/tmp/final_sweep_evidence}
for D in ${@:-seeded seeded2}; do
  for id in $(ls $D | grep '^C'); do
    [ -f $D/$id/patch.diff ] || continue
    prop=$(python3 -c "import json;print(json.load(open('$D/$id/meta.json'))['breaks_property'])")
    if ! git -C /repo apply /verif/$D/$id/patch.diff 2>/tmp/apply.err; then echo "$D/$id $prop n/a(does not apply: $(head -1 /tmp/apply.err | cut -c1-80))"; restore; continue; fi
    out=$(VERIF_SEED=${VERIF_SEED:-1} ./check $prop quick 2>&1); rc=$?
    restore
    if [ $rc -eq 1 ]; then v=caught; elif [ $rc -eq 0 ]; then v=MISSED; else v="n/a(rc=$rc)"; fi
    echo "$D/$id $prop $v :: $(echo "$out" | grep -m1 'why:' | cut -c1-200)"
  done
done
