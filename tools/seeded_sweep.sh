#!/bin/bash
# seeded_sweep.sh [ids...]: for every seeded change run the check of the property it breaks against a scratch copy of
# /repo's sources with the change applied (tools/mutrun.sh), and print one line per change: caught / missed / n/a
cd "$(dirname "$0")/.."
D=${SEEDED_DIR:-seeded}; ids=${@:-$(ls $D)}
for id in $ids; do
  [ -f $D/$id/patch.diff ] || continue
  prop=$(python3 -c "import json;print(json.load(open('$D/$id/meta.json'))['breaks_property'])")
  out=$(tools/mutrun.sh $D/$id/patch.diff $prop quick 2>&1); rc=$?
  if [ $rc -eq 1 ]; then verdict=caught; elif [ $rc -eq 0 ]; then verdict=MISSED; else verdict="n/a(rc=$rc)"; fi
  echo "$id $prop $verdict :: $(echo "$out" | grep -m1 'why:' | cut -c1-220)"
done
