#!/bin/bash
# selftest_mutants.sh [name-prefix]: every own mutant must turn its property's quick check red (exit 1).
cd "$(dirname "$0")/.."
for m in mutants/${1:-}*.diff; do
  prop=$(head -1 $m | sed 's/# breaks: //')
  out=$(tools/mutrun.sh $m $prop quick 2>&1); rc=$?
  if [ $rc -eq 1 ]; then v=caught; elif [ $rc -eq 0 ]; then v=MISSED; else v="n/a(rc=$rc)"; fi
  echo "$(basename $m .diff) $prop $v :: $(echo "$out" | grep -m1 'why:' | cut -c1-160)"
done
