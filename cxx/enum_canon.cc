// C14 enumerator: ALL strings over {a,b,.,/} of length 1..L (partitioned by index mod nparts).
#include "fuzz_common.h"
#include "ref_canon.h"
int main(int argc, char** argv) {
  int L = atoi(argv[1]); int nparts = atoi(argv[2]); int part = atoi(argv[3]);
  const char alpha[] = "ab./";
  uint64_t evals = 0, nontriv = 0; std::string fail; std::string fail_in;
  std::vector<std::string> samples;
  for (int len = 1; len <= L && fail.empty(); len++) {
    uint64_t total = 1ull << (2 * len);
    for (uint64_t n = part; n < total; n += nparts) {
      std::string s(len, 'a'); uint64_t v = n;
      for (int i = 0; i < len; i++) { s[i] = alpha[v & 3]; v >>= 2; }
      std::string out;
      std::string r = CheckCanon(s, &out);
      ++evals;
      if (out != s) { ++nontriv; if (samples.size() < 5 && (n % 9973) == (uint64_t)part % 9973) samples.push_back(s + " -> " + out); }
      if (!r.empty()) { fail = r; fail_in = s; break; }
    }
  }
  printf("{\"evaluations\": %llu, \"nontrivial\": %llu, \"samples\": [", (unsigned long long)evals, (unsigned long long)nontriv);
  for (size_t i = 0; i < samples.size(); i++) printf("%s\"%s\"", i ? ", " : "", vstats::JsonEscape(samples[i]).c_str());
  printf("], \"fail\": %s%s%s, \"input\": \"%s\"}\n", fail.empty() ? "null" : "\"", vstats::JsonEscape(fail).c_str(), fail.empty() ? "" : "\"", vstats::JsonEscape(fail_in).c_str());
  return 0;
}
