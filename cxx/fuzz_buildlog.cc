// C13: arbitrary bytes as .ninja_log (mode 1: behind a valid header; mode 2: one line stretched beyond the 256 KiB
// read buffer): load, look everything up, recompact, restat, reload.
#include "fuzz_ninja.h"
struct AllDead : BuildLogUser { bool dead; bool IsPathDead(StringPiece s) const override { return dead && s.len_ % 2; } };
extern "C" int LLVMFuzzerTestOneInput(const uint8_t* data, size_t size) {
  vstats::Exec(); ResetGlobals();
  if (size < 1) return 0;
  static string dir = [] { char t[] = "/dev/shm/fzlogXXXXXX"; char* d = mkdtemp(t); return string(d ? d : "/tmp"); }();
  string path = dir + "/log" + std::to_string(getpid());
  string body((const char*)data + 1, size - 1);
  int mode = data[0] & 3;
  string content = mode == 0 ? body : "# ninja log v7\n" + body;
  if (mode == 2) { size_t nl = content.find('\n', 15); string pad((256 << 10) + (data[0] >> 2), 'p'); content.insert(nl == string::npos ? content.size() : nl, pad); }
  FILE* f = fopen(path.c_str(), "wb"); fwrite(content.data(), 1, content.size(), f); fclose(f);
  try {
    BuildLog bl; string err;
    LoadStatus st = bl.Load(path, &err);
    if (st == LOAD_ERROR) vstats::Fail("build log: LOAD_ERROR on arbitrary bytes: " + err);
    vstats::Class(st == LOAD_SUCCESS ? "loaded" : "discarded");
    if (!bl.entries().empty()) { vstats::NonTrivial(data, size); vstats::Sample(body); }
    for (auto& kv : bl.entries()) { if (!bl.LookupByOutput(kv.first.AsString())) vstats::Fail("entry not found by its own key"); }
    if (st == LOAD_SUCCESS) {
      AllDead u; u.dead = data[0] & 4;
      string e2; bl.OpenForWrite(path, u, &e2);
      VFS fs;
      for (auto& kv : bl.entries()) fs.files[kv.first.AsString()] = {7, ""};
      bl.Restat(path, fs, 0, nullptr, &e2);
      bl.Recompact(path, u, &e2);
      BuildLog b2; string e3; if (b2.Load(path, &e3) == LOAD_ERROR) vstats::Fail("reload after recompaction failed: " + e3);
      // (names with an embedded NUL are written truncated by the text format: their number may change, which C13 does not forbid)
      bool nul = false; for (auto& kv : bl.entries()) if (memchr(kv.first.str_, 0, kv.first.len_)) nul = true;
      if (!nul && b2.entries().size() != bl.entries().size()) vstats::Fail("recompacted log has a different number of entries on reload");
    }
  } catch (FatalExit&) { vstats::Class("fatal"); }
  unlink(path.c_str());
  return 0;
}
