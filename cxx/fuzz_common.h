// Shared by libFuzzer targets and enumerators: counters that survive a trap, oracle failure reporting.
#pragma once
#include <stdint.h>
#include <stdio.h>
#include <stdlib.h>
#include <string.h>
#include <map>
#include <string>
#include <unordered_set>
#include <vector>

namespace vstats {
static uint64_t execs = 0;
static std::unordered_set<uint64_t>* nontrivial = nullptr;
static std::map<std::string, uint64_t>* classes = nullptr;
static std::vector<std::string>* samples = nullptr;
static bool registered = false;

inline uint64_t Fnv(const void* d, size_t n, uint64_t h = 1469598103934665603ull) {
  const unsigned char* p = (const unsigned char*)d;
  for (size_t i = 0; i < n; i++) { h ^= p[i]; h *= 1099511628211ull; }
  return h;
}
inline std::string JsonEscape(const std::string& s) {
  std::string o;
  for (unsigned char c : s) {
    if (c == '"' || c == '\\') { o += '\\'; o += (char)c; }
    else if (c < 0x20 || c >= 0x7f) { char b[8]; snprintf(b, sizeof b, "\\u%04x", c); o += b; }
    else o += (char)c;
  }
  return o;
}
inline void Flush() {
  const char* path = getenv("VERIF_STATS_FILE");
  if (!path) return;
  std::string tmp = std::string(path) + ".tmp";
  FILE* f = fopen(tmp.c_str(), "w");
  if (!f) return;
  fprintf(f, "{\"execs\": %llu, \"nontrivial\": %llu, \"classes\": {", (unsigned long long)execs,
          (unsigned long long)(nontrivial ? nontrivial->size() : 0));
  bool first = true;
  if (classes) for (auto& kv : *classes) { fprintf(f, "%s\"%s\": %llu", first ? "" : ", ", JsonEscape(kv.first).c_str(), (unsigned long long)kv.second); first = false; }
  fprintf(f, "}, \"samples\": [");
  first = true;
  if (samples) for (auto& s : *samples) { fprintf(f, "%s\"%s\"", first ? "" : ", ", JsonEscape(s).c_str()); first = false; }
  fprintf(f, "]}\n");
  fclose(f);
  rename(tmp.c_str(), path);
  // the hashes themselves, so that the driver can count distinct cases across workers
  std::string hp = std::string(path) + ".hashes";
  FILE* h = fopen(hp.c_str(), "wb");
  if (h) { if (nontrivial) for (uint64_t v : *nontrivial) fwrite(&v, 8, 1, h); fclose(h); }
}
inline void Init() {
  if (registered) return;
  registered = true;
  nontrivial = new std::unordered_set<uint64_t>();
  classes = new std::map<std::string, uint64_t>();
  samples = new std::vector<std::string>();
  atexit(Flush);
}
inline void Exec() { Init(); ++execs; }
inline void Class(const char* c) { Init(); ++(*classes)[c]; }
// record a non-trivial case by the hash of its bytes (set capped to bound memory; count is then a lower bound)
inline void NonTrivial(const void* d, size_t n) {
  Init();
  if (nontrivial->size() < 4000000) nontrivial->insert(Fnv(d, n));
}
inline void Sample(const std::string& s) {
  Init();
  if (samples->size() < 6) samples->push_back(s.size() > 300 ? s.substr(0, 300) + "..." : s);
}
// Semantic-oracle failure: describe, flush counters, trap (libFuzzer then saves the input as crash-*).
[[noreturn]] inline void Fail(const std::string& what) {
  fprintf(stderr, "\nORACLE-FAIL: %s\n", what.c_str());
  const char* path = getenv("VERIF_FAIL_FILE");
  if (path) { FILE* f = fopen(path, "w"); if (f) { fputs(what.c_str(), f); fclose(f); } }
  Flush();
  __builtin_trap();
}
}  // namespace vstats
