// Shared by the C13 targets: Fatal() becomes an exception (a clean, countable rejection), per-iteration reset of
// ninja's process-global state, a watchdog-friendly virtual disk.
#pragma once
#include "fuzz_common.h"
#include "probe_sim.h"
#include "metrics.h"
void EmitResult(const json&) {}
struct FatalExit { std::string msg; };
static void FatalHook(const char* m) { throw FatalExit{m}; }
static void ResetGlobals() {
  g_ninja_verif_fatal_hook = FatalHook;
  g_ninja_verif_point_hook = nullptr;
  g_explaining = false; g_keep_depfile = false; g_keep_rsp = false; g_experimental_statcache = true;
  g_metrics = nullptr;
}
