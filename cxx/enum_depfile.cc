// C15 enumerator: ALL names of length 1..L over a 16-character special alphabet, as dependency (first/last
// position) and as target, x 2 encoders x 8 layouts.  Prints counters and the first failures as JSON.
#include "fuzz_common.h"
#include "ref_depfile.h"
using namespace c15;
int main(int argc, char** argv) {
  int L = atoi(argv[1]); int nparts = atoi(argv[2]); int part = atoi(argv[3]);
  const string alpha[] = {"a", " ", "\\", "#", "$", ":", "%", ".", "/", "~", "=", "\xc3", "(", ";", "*", "\t"};
  const int A = 16;
  uint64_t evals = 0, nontriv = 0, excluded = 0, d11_names = 0, d11_fail = 0, d11_ok = 0;
  string fail, d11_example; vector<string> samples;
  uint64_t idx = 0;
  for (int len = 1; len <= L && fail.empty(); len++) {
    uint64_t total = 1; for (int i = 0; i < len; i++) total *= A;
    for (uint64_t n = 0; n < total && fail.empty(); n++, idx++) {
      if ((int)(idx % nparts) != part) continue;
      string name; uint64_t v = n;
      for (int i = 0; i < len; i++) { name += alpha[v % A]; v /= A; }
      if (!Representable(name)) {
        // names ending in 2N backslashes: only as a dependency followed by another one on the same line
        if (RepresentableMidLine(name) && !InD11Class(name)) {
          for (int enc = 0; enc < 2 && fail.empty(); enc++) for (int lay : {0, 1, 2, 3, 4, 7}) {
            Case c; c.encoder = enc; c.layout = lay; c.targets = {"out.o"}; c.deps = {"a b.h", name, "tail.h"};
            string r = Check(c); ++evals; ++nontriv;
            if (!r.empty()) { fail = r; break; }
            c.deps = {name, "x#y.h"};
            r = Check(c); ++evals;
            if (!r.empty()) { fail = r; break; }
          }
          continue;
        }
        ++excluded; continue; }
      bool d11 = InD11Class(name);
      if (d11) ++d11_names;
      for (int enc = 0; enc < 2 && fail.empty(); enc++) for (int lay = 0; lay < kLayouts && fail.empty(); lay++) {
        for (int role = 0; role < 3; role++) {
          Case c; c.encoder = enc; c.layout = lay;
          if (role == 0) { c.targets = {"out.o"}; c.deps = {name, "tail.h"}; }
          else if (role == 1) { c.targets = {"out.o"}; c.deps = {"head.h", name}; }
          else { if (name.find(':') != string::npos && name.find('\\') != string::npos) continue; c.targets = {name, "second.o"}; c.deps = {"x.h"}; }
          string r = Check(c);
          ++evals;
          if (d11) { if (!r.empty()) { ++d11_fail; if (d11_example.empty()) d11_example = name + " => " + r; } else ++d11_ok; continue; }
          bool special = name.find_first_of(" \\#$:%") != string::npos;
          if (special) { ++nontriv; if (samples.size() < 5 && idx % 977 == 0) samples.push_back(Encode(c)); }
          if (!r.empty()) { fail = r; break; }
        }
      }
      if (fail.empty() && !d11) { string r = CheckRejections(name, "other.h"); ++evals; if (!r.empty()) fail = r; }
    }
  }
  printf("{\"evaluations\": %llu, \"nontrivial\": %llu, \"excluded_unrepresentable\": %llu, \"d11_names\": %llu, \"d11_fail\": %llu, \"d11_ok\": %llu, \"d11_example\": \"%s\", \"samples\": [",
         (unsigned long long)evals, (unsigned long long)nontriv, (unsigned long long)excluded, (unsigned long long)d11_names,
         (unsigned long long)d11_fail, (unsigned long long)d11_ok, vstats::JsonEscape(d11_example).c_str());
  for (size_t i = 0; i < samples.size(); i++) printf("%s\"%s\"", i ? ", " : "", vstats::JsonEscape(samples[i]).c_str());
  printf("], \"fail\": %s%s%s}\n", fail.empty() ? "null" : "\"", vstats::JsonEscape(fail).c_str(), fail.empty() ? "" : "\"");
  return 0;
}
