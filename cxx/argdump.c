/* argdump: prints argc-1, then every argument, each terminated by NUL. Used by C16 to see what /bin/sh made of a command line. */
#include <stdio.h>
#include <string.h>
int main(int argc, char** argv) {
  printf("%d", argc - 1); putchar(0);
  for (int i = 1; i < argc; i++) { fwrite(argv[i], 1, strlen(argv[i]), stdout); putchar(0); }
  return 0;
}
