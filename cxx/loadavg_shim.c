/* LD_PRELOAD shim: getloadavg() returns the number found in $VERIF_LOADAVG_FILE (0 if unreadable), so that the
 * capacity ninja derives from -l is an input of the harness instead of a property of the machine. */
#define _GNU_SOURCE
#include <stdio.h>
#include <stdlib.h>

int getloadavg(double loadavg[], int nelem) {
  const char* p = getenv("VERIF_LOADAVG_FILE");
  double v = 0;
  if (p) {
    FILE* f = fopen(p, "r");
    if (f) {
      if (fscanf(f, "%lf", &v) != 1) v = 0;
      fclose(f);
    }
  }
  for (int i = 0; i < nelem; i++) loadavg[i] = v;
  return nelem;
}
