// C14 libFuzzer target: arbitrary NUL-free bytes and structure-decoded long paths (hundreds of components);
// oracle = M-canon + laws, inside the target.
#include "fuzz_common.h"
#include "ref_canon.h"
extern "C" int LLVMFuzzerTestOneInput(const uint8_t* data, size_t size) {
  vstats::Exec();
  if (size < 1) return 0;
  std::string in;
  uint8_t mode = data[0] & 3;
  if (mode == 0) {  // raw bytes, NUL removed
    for (size_t i = 1; i < size; i++) if (data[i]) in += (char)data[i];
    vstats::Class("raw");
  } else {  // each byte selects a component / separator: long paths with many '..' and '.' and '//' runs
    static const char* comps[] = {"a", "..", ".", "", "bc", "..", "...", ".a", "a.", "..b", "/", "x/y", "\\", " ", "..", "."};
    if (mode == 2) in = "/";
    for (size_t i = 1; i < size; i++) {
      in += comps[data[i] & 15];
      if ((data[i] >> 4) != 15 || i + 1 < size) in += '/';
      if ((data[i] >> 4) == 0) in += '/';
      if ((data[i] >> 4) == 1 && mode == 3) { in += (char)(0x80 | data[i]); }
    }
    if (mode == 3 && !in.empty() && in.back() == '/') in.pop_back();
    vstats::Class("structured");
  }
  std::string out;
  std::string r = CheckCanon(in, &out);
  if (!r.empty()) vstats::Fail("C14 canon: input '" + in + "': " + r);
  if (out != in) { vstats::NonTrivial(in.data(), in.size()); vstats::Sample(in + " -> " + out); }
  size_t ncomp = 0; for (char c : in) ncomp += c == '/';
  if (ncomp >= 100) vstats::Class("components>=100");
  return 0;
}
