// C13: manifest + included files from bytes (NUL separates up to 4 virtual files; include/subninja resolve inside
// the set), then the result is *used*: every binding evaluated, dirty scan + dry-run build of the default targets
// on a virtual disk where dyndep/depfile reads hit the fuzzed files too.
#include "fuzz_ninja.h"
struct FuzzFS : VFS {
  int depth = 0; bool cut = false;
  Status ReadFile(const string& p, string* c, string* err) override {
    // a file that (transitively) includes itself recurses without bound in the stock parser (finding D7); the reader
    // cuts the recursion at a depth far above any limit a repaired parser uses, so that the search continues behind it
    if (++depth > 1500 && !getenv("VERIF_NO_DEPTH_CUT")) { cut = true; *err = "verif: include depth cut"; return OtherError; }
    return VFS::ReadFile(p, c, err);
  }
};
extern "C" int LLVMFuzzerTestOneInput(const uint8_t* data, size_t size) {
  vstats::Exec(); ResetGlobals();
  static const char* names[] = {"build.ninja", "a.ninja", "b.ninja", "dd"};
  FuzzFS fs; size_t start = 0; int n = 0;
  for (size_t i = 0; i <= size && n < 4; i++) if (i == size || data[i] == 0) { fs.files[names[n++]] = {++fs.now, string((const char*)data + start, i - start)}; start = i + 1; }
  try {
    State state; string err;
    ManifestParserOptions opts; if (size && (data[size - 1] & 1)) opts.phony_cycle_action_ = kPhonyCycleActionError;
    ManifestParser parser(&state, &fs, opts);
    if (!parser.Load("build.ninja", &err)) { if (fs.cut) vstats::Class("depth_cut"); vstats::Class("rejected"); return 0; }
    vstats::Class("accepted"); vstats::NonTrivial(data, size);
    if (state.edges_.size() > 0) vstats::Sample(string((const char*)data, size));
    for (Edge* e : state.edges_) {
      e->EvaluateCommand(true); e->GetBinding("description"); e->GetUnescapedDepfile(); e->GetUnescapedRspfile(); e->GetUnescapedDyndep();
      e->GetBindingBool("restat"); e->GetBindingBool("generator"); e->GetBinding("deps"); e->pool();
    }
    // give every leaf a file so that scans go deep, then scan + plan + dry run
    for (auto& kv : state.paths_) if (!kv.second->in_edge() && !fs.files.count(kv.second->path())) fs.files[kv.second->path()] = {++fs.now, "x"};
    BuildConfig cfg; cfg.verbosity = BuildConfig::QUIET; cfg.dry_run = true; cfg.parallelism = 2;
    json trace = json::array(); int seq = 0; RecStatus st; st.trace = &trace; st.seq = &seq;
    BuildLog bl; DepsLog dl;
    Builder b(&state, cfg, &bl, &dl, &fs, &st, 0);
    string derr; vector<Node*> targets = state.DefaultNodes(&derr);
    bool ok = derr.empty();
    for (Node* t : targets) { string terr; if (!b.AddTarget(t, &terr) && !terr.empty()) { ok = false; break; } }
    if (ok && !b.AlreadyUpToDate()) { string berr; b.Build(&berr); vstats::Class("built"); }
  } catch (FatalExit&) { vstats::Class("fatal"); }
  return 0;
}
