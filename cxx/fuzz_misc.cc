// C13: compiler output parsed for /showIncludes, MAKEFLAGS, status format strings, and the small string helpers.
#include "fuzz_ninja.h"
#include "clparser.h"
#include "elide_middle.h"
#include "jobserver.h"
#include "json.h"
#include "status_printer.h"
extern "C" int LLVMFuzzerTestOneInput(const uint8_t* data, size_t size) {
  vstats::Exec(); ResetGlobals();
  if (size < 2) return 0;
  int mode = data[0] % 5; string s((const char*)data + 2, size - 2);
  try {
    if (mode == 0) {
      CLParser p; string out, err; string prefix = (data[1] & 1) ? "" : s.substr(0, data[1] % 8);
      bool ok = p.Parse(s, prefix, &out, &err);
      vstats::Class(ok ? "cl_ok" : "cl_err");
      if (!p.includes_.empty()) { vstats::NonTrivial(data, size); vstats::Sample(s); }
      CLParser::FilterShowIncludes(s, prefix); CLParser::IsSystemInclude(s); CLParser::FilterInputFilename(s);
    } else if (mode == 1) {
      Jobserver::Config c; string err; string z = s; for (char& ch : z) if (!ch) ch = ' ';
      bool ok = Jobserver::ParseMakeFlagsValue(z.c_str(), &c, &err);
      Jobserver::Config c2; string err2; Jobserver::ParseNativeMakeFlagsValue(z.c_str(), &c2, &err2);
      vstats::Class(ok ? "makeflags_ok" : "makeflags_err");
      if (ok && c.mode != Jobserver::Config::kModeNone) { vstats::NonTrivial(data, size); vstats::Sample(z); }
    } else if (mode == 2) {
      BuildConfig cfg; cfg.verbosity = BuildConfig::QUIET;
      StatusPrinter sp(cfg);
      string z = s; for (char& ch : z) if (!ch) ch = '%';
      string r = sp.FormatProgressStatus(z.c_str(), data[1]);
      vstats::Class("status_ok"); if (z.find('%') != string::npos) { vstats::NonTrivial(data, size); vstats::Sample(z); }
    } else if (mode == 3) {
      for (size_t w : {(size_t)0, (size_t)1, (size_t)3, (size_t)data[1], s.size(), s.size() + 1}) {
        string t = s; ElideMiddleInPlace(t, w);
        if (w >= s.size() && t != s) vstats::Fail("ElideMiddle changed a string that fits");
      }
      string stripped = StripAnsiEscapeCodes(s);
      if (stripped.size() > s.size()) vstats::Fail("StripAnsiEscapeCodes grew the string");
      vstats::Class("elide_strip");
    } else {
      string j = EncodeJSONString(s); string q; GetShellEscapedString(s, &q);
      for (unsigned char ch : j) if (ch < 0x20) vstats::Fail("EncodeJSONString left a control character");
      vstats::Class("json_shell");
    }
  } catch (FatalExit&) { vstats::Class("fatal"); if (mode == 2) { vstats::NonTrivial(data, size); } }
  return 0;
}
