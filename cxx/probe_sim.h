// SIM: one ninja invocation driven in-process with a virtual disk, a scripted command runner that owns the
// schedule, real BuildLog/DepsLog files, crash points and (optionally) exhaustive exploration of all command
// completion orders by forking at every choice point.  See DESIGN.md 2.2.
#pragma once
#include <cerrno>
#include <climits>
#include <cstdio>
#include <cstring>
#include <map>
#include <set>
#include <string>
#include <vector>
#include <sys/mman.h>
#include <sys/wait.h>
#include <unistd.h>

#include <nlohmann/json.hpp>

#include "build.h"
#include "build_log.h"
#include "clean.h"
#include "debug_flags.h"
#include "deps_log.h"
#include "disk_interface.h"
#include "graph.h"
#include "manifest_parser.h"
#include "state.h"
#include "status.h"
#include "util.h"

using json = nlohmann::json;
using std::map;
using std::set;
using std::string;
using std::vector;

void EmitResult(const json& j);  // provided by probe.cc: writes one result line to the response pipe

inline uint64_t Fnv(const string& s) {
  uint64_t h = 1469598103934665603ull;
  for (unsigned char c : s) { h ^= c; h *= 1099511628211ull; }
  return h;
}
inline string Hex(uint64_t v) { char b[32]; snprintf(b, sizeof b, "%016llx", (unsigned long long)v); return b; }

struct VFS : DiskInterface {
  struct E { int64_t mtime; string content; };
  map<string, E> files;
  set<string> dirs;
  int64_t now = 10;
  mutable vector<string> removed;  // every RemoveFile call that removed something (C18)
  bool fail_stat_all = false;
  TimeStamp Stat(const string& p, string* err) const override {
    auto i = files.find(p);
    if (i != files.end()) return i->second.mtime;
    if (dirs.count(p)) return 1;
    return 0;
  }
  bool WriteFile(const string& p, const string& c, bool) override { files[p] = {++now, c}; return true; }
  bool MakeDir(const string& p) override { dirs.insert(p); return true; }
  Status ReadFile(const string& p, string* c, string* err) override {
    auto i = files.find(p);
    if (i == files.end()) { *err = strerror(ENOENT); return NotFound; }
    *c = i->second.content; return Okay;
  }
  int RemoveFile(const string& p) override {
    if (files.erase(p)) { removed.push_back(p); return 0; }
    return 1;
  }
  void LoadJson(const json& in) {
    now = in.value("now", (int64_t)10);
    for (auto& [p, f] : in["files"].items()) files[p] = {f["m"].get<int64_t>(), f["c"].get<string>()};
    if (in.contains("dirs")) for (auto& d : in["dirs"]) dirs.insert(d.get<string>());
  }
  json FilesJson() const {
    json o = json::object();
    for (auto& kv : files) o[kv.first] = {{"c", kv.second.content}, {"m", kv.second.mtime}};
    return o;
  }
  json DirsJson() const { json a = json::array(); for (auto& d : dirs) a.push_back(d); return a; }
};

static string EdgeKey(const Edge* e) { return e->outputs_[0]->path(); }

struct RecStatus : Status {
  json* trace; int* seq;
  void ev(const char* k, const Edge* e) { trace->push_back({{"seq", (*seq)++}, {"ev", k}, {"edge", EdgeKey(e)}}); }
  void EdgeAddedToPlan(const Edge* e) override { ev("plan+", e); }
  void EdgeRemovedFromPlan(const Edge* e) override { ev("plan-", e); }
  void BuildEdgeStarted(const Edge* e, int64_t) override { ev("st_started", e); }
  void BuildEdgeFinished(Edge* e, int64_t, int64_t, ExitStatus st, const string& out) override {
    trace->push_back({{"seq", (*seq)++}, {"ev", "st_finished"}, {"edge", EdgeKey(e)}, {"status", (int)st}, {"output", out}});
  }
  void BuildStarted() override { trace->push_back({{"seq", (*seq)++}, {"ev", "build_started"}}); }
  void BuildFinished() override { trace->push_back({{"seq", (*seq)++}, {"ev", "build_finished"}}); }
  void SetExplanations(Explanations*) override {}
  void NewLine() override {}
  void Info(const char*, ...) override {}
  void Warning(const char* m, ...) override { trace->push_back({{"seq", (*seq)++}, {"ev", "warning"}, {"msg", m}}); }
  void Error(const char* m, ...) override { trace->push_back({{"seq", (*seq)++}, {"ev", "error"}, {"msg", m}}); }
};

struct Running { Edge* edge; string key; json reads; string content; bool missing_read; string rsp; };

struct SimCtx;
static SimCtx* g_sim = nullptr;

struct Runner : CommandRunner {
  VFS* fs; size_t j; json spec; json* trace; int* seq;
  vector<Running> active;
  vector<int> schedule; size_t sched_pos = 0;
  json mid_edits = json::array(); int interrupt_at = -1; int waits = 0; int starts = 0;
  json touched_on_interrupt = json::array();
  vector<int> cap_script; mutable size_t cap_pos = 0;   // load-limited capacities: value subtracted from j
  bool enumerate = false; int* path_counter = nullptr; int path_cap = 0; bool* truncated = nullptr;
  vector<int> chosen;
  int crash_runner_call = -1; int runner_calls = 0;
  Runner(VFS* f, size_t j, const json& spec, json* t, int* s) : fs(f), j(j), spec(spec), trace(t), seq(s) {}
  size_t CanRunMore() const override {
    size_t cap = j;
    if (cap_pos < cap_script.size()) {   // emulate -l: never below 1 slot when nothing runs (as the real runner)
      size_t c = (size_t)cap_script[cap_pos++];
      if (c < cap) cap = c;
      if (cap == 0 && active.empty()) cap = 1;
    }
    if (active.size() < cap) return cap - active.size();
    return 0;
  }
  json ActiveNames() const { json a = json::array(); for (auto& r : active) a.push_back(r.key); return a; }
  json EdgeSpec(const string& key) const { return spec.contains(key) ? spec[key] : json::object(); }
  void MaybeCrashAtRunnerCall();
  bool StartCommand(Edge* e) override {
    ++runner_calls; MaybeCrashAtRunnerCall();
    string key = EdgeKey(e);
    json es = EdgeSpec(key);
    if (es.value("start_fails", false)) {
      trace->push_back({{"seq", (*seq)++}, {"ev", "start_refused"}, {"edge", key}});
      return false;
    }
    Running r{e, key, json::array(), "", false, ""};
    string acc = key + "|" + es.value("variant", "") + "|";
    string rsp = e->GetUnescapedRspfile();
    json rspj = nullptr;
    if (!rsp.empty()) {
      auto f = fs->files.find(rsp);
      acc += "rsp=" + (f == fs->files.end() ? string("<norsp>") : f->second.content) + "|";
      if (f != fs->files.end()) rspj = f->second.content;
    }
    for (auto& p : es.value("reads", json::array())) {
      auto f = fs->files.find(p.get<string>());
      if (f == fs->files.end()) { r.missing_read = true; acc += "<missing>,"; r.reads.push_back({p, nullptr}); }
      else { acc += f->second.content + ","; r.reads.push_back({p, f->second.content}); }
    }
    r.content = Hex(Fnv(acc));
    json dirs_ok = json::object();
    auto dir_ok = [&](const string& d) { size_t s = d.rfind('/'); return s == string::npos || s == 0 || fs->dirs.count(d.substr(0, s)) > 0; };
    json outs = json::array();
    for (auto* o : e->outputs_) { dirs_ok[o->path()] = dir_ok(o->path()); outs.push_back(o->path()); }
    string df = e->GetUnescapedDepfile();
    if (!df.empty()) dirs_ok[df] = dir_ok(df);
    json ev = {{"seq", (*seq)++}, {"ev", "start"}, {"edge", key}, {"cmd", e->EvaluateCommand()}, {"running", ActiveNames()},
               {"reads", r.reads}, {"dirs_ok", dirs_ok}, {"now", fs->now}, {"start_tick", e->command_start_time_},
               {"pool", e->pool()->name()}, {"pool_depth", e->pool()->depth()}, {"outs", outs}, {"n", starts++}};
    { auto lk = fs->files.find(".ninja_lock"); ev["lock_mtime"] = lk == fs->files.end() ? (int64_t)0 : lk->second.mtime; }
    if (!rsp.empty()) { ev["rspfile"] = rspj; ev["rspfile_path"] = rsp; ev["rspfile_want"] = e->GetBinding("rspfile_content"); }
    trace->push_back(ev);
    active.push_back(r);
    return true;
  }
  // what the command writes when it completes
  void Complete(const Running& r, int* status_out, string* output, json* wrote) {
    Edge* e = r.edge;
    json es = EdgeSpec(r.key);
    int fail = es.value("fail", 0);
    bool fail_touch = es.value("fail_touch", false);
    if (r.missing_read && fail == 0 && !es.value("tolerate_missing", false)) { fail = 1; fail_touch = false; }
    bool restat = e->GetBindingBool("restat");
    if (fail == 0 || fail_touch) {
      string content = fail ? "garbage:" + r.content : r.content;
      json over = es.value("content_override", json::object());
      for (auto* o : e->outputs_) {
        string c = content + "@" + o->path();
        if (!fail && over.contains(o->path())) {
          const json& ov = over[o->path()];
          string by = ov.value("by", "");
          string sel;
          for (auto& rd : r.reads) if (rd[0] == by && !rd[1].is_null()) sel = rd[1].get<string>();
          c = ov["table"].contains(sel) ? ov["table"][sel].get<string>() : ov.value("default", string(""));
        }
        auto f = fs->files.find(o->path());
        if (restat && !fail && f != fs->files.end() && f->second.content == c) continue;
        fs->WriteFile(o->path(), c, false); wrote->push_back(o->path());
      }
    }
    string df = e->GetUnescapedDepfile();
    string deps = e->GetBinding("deps");
    if ((fail == 0 || fail_touch || es.value("fail_depfile", false)) && !df.empty() && deps != "msvc") {
      string c;
      int layout = es.value("depfile_layout", 0);
      string tgt = es.value("depfile_target", e->outputs_[0]->path());
      json hidden = es.value("hidden_spelled", es.value("hidden", json::array()));
      if (layout == 1) { c = tgt + ": \\\n"; for (auto& h : hidden) c += "  " + h.get<string>() + " \\\n"; c += "\n"; }
      else if (layout == 2) { c = tgt + ":"; for (auto& h : hidden) c += " " + h.get<string>(); c += "\r\n"; for (auto& h : hidden) c += h.get<string>() + ":\r\n"; }
      else if (layout == 3) { for (auto& h : hidden) c += tgt + ": " + h.get<string>() + "\n"; if (hidden.empty()) c = tgt + ":\n"; }
      else { c = tgt + ":"; for (auto& h : hidden) c += " " + h.get<string>(); c += "\n"; }
      fs->WriteFile(df, c, false);
    }
    *output = es.value("print", "");
    if (deps == "msvc") {
      string prefix = e->GetBinding("msvc_deps_prefix");
      if (prefix.empty()) prefix = "Note: including file: ";
      for (auto& h : es.value("hidden", json::array())) *output += prefix + h.get<string>() + "\n";
    }
    *status_out = fail;
  }
  BuildResult WaitForCommand() override;
  vector<Edge*> GetActiveEdges() override { vector<Edge*> v; for (auto& r : active) v.push_back(r.edge); return v; }
  void Abort() override { trace->push_back({{"seq", (*seq)++}, {"ev", "abort"}, {"running", ActiveNames()}}); active.clear(); }
};

struct LogUser : BuildLogUser {
  VFS* fs; State* st;
  bool IsPathDead(StringPiece s) const override {
    Node* n = st->LookupNode(s);
    if (n && n->in_edge()) return false;
    return fs->files.count(s.AsString()) == 0;
  }
};

static json DumpBuildLog(const string& path, json* warn = nullptr) {
  json jlog = json::object();
  BuildLog bl; string e;
  LoadStatus s = bl.Load(path, &e);
  if (warn) *warn = {{"status", (int)s}, {"err", e}};
  for (auto& kv : bl.entries())
    jlog[kv.first.AsString()] = {{"hash", Hex(kv.second->command_hash)}, {"mtime", kv.second->mtime},
                                 {"start", kv.second->start_time}, {"end", kv.second->end_time}};
  return jlog;
}
static json DumpDepsLog(const string& path, json* warn = nullptr) {
  json jdeps = json::object();
  State s2; DepsLog dl; string e;
  LoadStatus s = dl.Load(path, &s2, &e);
  if (warn) *warn = {{"status", (int)s}, {"err", e}};
  for (Node* n : dl.nodes()) {
    if (n->id() < 0 || n->id() >= (int)dl.deps().size()) continue;
    DepsLog::Deps* d = dl.GetDeps(n);
    if (!d) continue;
    json ins = json::array();
    for (int i = 0; i < d->node_count; i++) ins.push_back(d->nodes[i]->path());
    jdeps[n->path()] = {{"mtime", d->mtime}, {"ins", ins}};
  }
  return jdeps;
}

struct SimCtx {
  json in; VFS fs; json trace = json::array(); int seq = 0;
  string logdir; string phase = "build"; int status = 0; string err;
  json warns = json::array();
  string crash_point; int crash_hit = 1; int point_hits = 0; json points_seen = json::object();
  bool enumerate = false; bool leaf_emitted = false;
  Runner* runner = nullptr;
  json regen = json::array();

  json Result(bool crashed, bool with_logs) {
    json res = {{"phase", phase}, {"status", status}, {"err", err}, {"trace", trace}, {"files", fs.FilesJson()},
                {"dirs", fs.DirsJson()}, {"now", fs.now}, {"warnings", warns}, {"crashed", crashed},
                {"points", points_seen}, {"regen", regen}};
    if (runner) res["choices"] = runner->chosen;
    if (with_logs) {
      json w1, w2;
      res["log"] = DumpBuildLog(logdir + "/.ninja_log", &w1);
      res["deps"] = DumpDepsLog(logdir + "/.ninja_deps", &w2);
      res["log_load"] = w1; res["deps_load"] = w2;
    }
    return res;
  }
  [[noreturn]] void Crash(const string& where) {
    trace.push_back({{"seq", seq++}, {"ev", "crash"}, {"at", where}});
    // the process dies here: no destructors, no Cleanup, stdio buffers of the logs are lost as in real life
    EmitResult(Result(true, true));
    _exit(0);
  }
};

inline void Runner::MaybeCrashAtRunnerCall() {
  if (crash_runner_call >= 0 && runner_calls == crash_runner_call + 1) g_sim->Crash("runner_call");
}

static void SimPointHook(const char* name) {
  SimCtx* c = g_sim;
  if (!c) return;
  int n = c->points_seen.value(name, 0) + 1;
  c->points_seen[name] = n;
  if (!c->crash_point.empty() && c->crash_point == name && n == c->crash_hit) c->Crash(name);
}

inline BuildResult Runner::WaitForCommand() {
  ++runner_calls; MaybeCrashAtRunnerCall();
  ++waits;
  trace->push_back({{"seq", (*seq)++}, {"ev", "wait"}, {"running", ActiveNames()}, {"free", (int64_t)j - (int64_t)active.size()}});
  if (active.empty()) return BuildResult::Finished{};
  for (auto& me : mid_edits) if (me.value("at", -1) == waits - 1) {
    fs->WriteFile(me["path"], me["content"], false);
    trace->push_back({{"seq", (*seq)++}, {"ev", "mid_edit"}, {"path", me["path"]}});
  }
  if (interrupt_at >= 0 && waits == interrupt_at + 1) {
    for (auto& r : active) {
      bool touch = false;
      for (auto& t : touched_on_interrupt) if (t == r.key) touch = true;
      if (touch) {
        for (auto* o : r.edge->outputs_) fs->WriteFile(o->path(), "partial:" + r.content, false);
        string df = r.edge->GetUnescapedDepfile();
        if (!df.empty()) fs->WriteFile(df, r.edge->outputs_[0]->path() + ": partial\n", false);
      }
    }
    trace->push_back({{"seq", (*seq)++}, {"ev", "interrupt"}, {"running", ActiveNames()}});
    return BuildResult::Interrupted{};
  }
  size_t idx = 0;
  if (sched_pos < schedule.size()) idx = (size_t)schedule[sched_pos++] % active.size();
  else if (enumerate && active.size() > 1) {
    // explore every completion order: children take alternatives 1..n-1 (depth first, one process at a time)
    for (size_t alt = 1; alt < active.size(); ++alt) {
      if (*path_counter >= path_cap) { *truncated = true; break; }
      ++*path_counter;
      fflush(nullptr);
      pid_t pid = fork();
      if (pid == 0) { idx = alt; break; }
      int st; waitpid(pid, &st, 0);
      if (!(WIFEXITED(st) && WEXITSTATUS(st) == 0)) {
        // a branch died: propagate as an abnormal exit of the whole exploration
        fprintf(stderr, "SIM: exploration branch died (status %d)\n", st);
        _exit(WIFSIGNALED(st) ? 128 + WTERMSIG(st) : WEXITSTATUS(st));
      }
    }
  }
  chosen.push_back((int)idx);
  Running r = active[idx]; active.erase(active.begin() + idx);
  int fail = 0; string output; json wrote = json::array();
  Complete(r, &fail, &output, &wrote);
  ExitStatus st = (ExitStatus)fail;
  trace->push_back({{"seq", (*seq)++}, {"ev", "finish"}, {"edge", r.key}, {"status", fail}, {"wrote", wrote}, {"now", fs->now}});
  return BuildResult::CommandCompleted(r.edge, st, output);
}

// One complete "ninja" invocation (RebuildManifest loop + RunBuild) against the virtual disk.
static void HandleSim(const json& in) {
  SimCtx ctx; g_sim = &ctx;
  ctx.in = in;
  ctx.fs.LoadJson(in);
  ctx.logdir = in["logdir"];
  ctx.enumerate = in.value("enumerate", false);
  if (in.contains("crash_point")) { ctx.crash_point = in["crash_point"].value("point", ""); ctx.crash_hit = in["crash_point"].value("hit", 1); }
  g_ninja_verif_point_hook = SimPointHook;
  VFS& fs = ctx.fs;
  string lp = ctx.logdir + "/.ninja_log", dp = ctx.logdir + "/.ninja_deps";
  string manifest = in.value("manifest", "build.ninja");
  bool dry = in.value("dry_run", false);
  int* shared = (int*)mmap(nullptr, 4096, PROT_READ | PROT_WRITE, MAP_SHARED | MAP_ANONYMOUS, -1, 0);
  shared[0] = 1; shared[1] = 0;
  const int kCycleLimit = 100;
  for (int cycle = 1; cycle <= kCycleLimit; ++cycle) {
    // NB: State, logs and builder are deliberately leaked at the end of the cycle (as ninja's exit() does)
    State* state = new State;
    {
      ManifestParserOptions opts;
      if (in.value("phony_cycle_err", false)) opts.phony_cycle_action_ = kPhonyCycleActionError;
      ManifestParser parser(state, &fs, opts);
      string perr;
      if (!parser.Load(manifest, &perr)) { ctx.phase = "parse"; ctx.status = 1; ctx.err = perr; EmitResult(ctx.Result(false, true)); return; }
    }
    BuildLog* bl = new BuildLog; DepsLog* dl = new DepsLog;
    LogUser* u = new LogUser; u->fs = &fs; u->st = state; string e2;
    if (bl->Load(lp, &e2) == LOAD_ERROR) { ctx.phase = "log"; ctx.status = 1; ctx.err = e2; EmitResult(ctx.Result(false, false)); return; }
    if (!e2.empty()) ctx.warns.push_back(e2); e2.clear();
    if (!dry && !bl->OpenForWrite(lp, *u, &e2)) { ctx.phase = "log"; ctx.status = 1; ctx.err = e2; EmitResult(ctx.Result(false, false)); return; }
    if (dl->Load(dp, state, &e2) == LOAD_ERROR) { ctx.phase = "deps"; ctx.status = 1; ctx.err = e2; EmitResult(ctx.Result(false, false)); return; }
    if (!e2.empty()) ctx.warns.push_back(e2); e2.clear();
    if (!dry && !dl->OpenForWrite(dp, &e2)) { ctx.phase = "deps"; ctx.status = 1; ctx.err = e2; EmitResult(ctx.Result(false, false)); return; }
    BuildConfig* cfg = new BuildConfig; cfg->verbosity = BuildConfig::QUIET; cfg->parallelism = in.value("j", 1);
    cfg->failures_allowed = in.value("k", 1); cfg->dry_run = dry;
    if (cfg->failures_allowed <= 0) cfg->failures_allowed = INT_MAX;   // -k 0
    RecStatus* st = new RecStatus; st->trace = &ctx.trace; st->seq = &ctx.seq;
    auto make_runner = [&](Builder* b) {
      if (dry) return (Runner*)nullptr;
      Runner* run = new Runner(&fs, cfg->parallelism, in.value("edges", json::object()), &ctx.trace, &ctx.seq);
      for (auto& s : in.value("schedule", json::array())) run->schedule.push_back(s.get<int>());
      for (auto& s : in.value("cap_script", json::array())) run->cap_script.push_back(s.get<int>());
      run->mid_edits = in.value("mid_edits", json::array());
      run->interrupt_at = in.value("interrupt_at", -1);
      run->touched_on_interrupt = in.value("touched_on_interrupt", json::array());
      run->crash_runner_call = in.value("crash_runner_call", -1);
      run->enumerate = ctx.enumerate; run->path_counter = &shared[0]; run->path_cap = in.value("path_cap", 2000);
      run->truncated = (bool*)&shared[1];
      b->command_runner_.reset(run);
      ctx.runner = run;
      return run;
    };
    // --- RebuildManifest
    bool restart = false;
    if (!in.value("no_regen", false)) {
      string mpath = manifest; uint64_t sb; CanonicalizePath(&mpath, &sb);
      Node* mnode = state->LookupNode(mpath);
      if (mnode) {
        Builder* b = new Builder(state, *cfg, bl, dl, &fs, st, 0);
        make_runner(b);
        string rerr;
        bool rebuilt = false;
        if (b->AddTarget(mnode, &rerr)) {
          if (!b->AlreadyUpToDate()) {
            ctx.trace.push_back({{"seq", ctx.seq++}, {"ev", "regen_begin"}});
            if (b->Build(&rerr) == ExitSuccess) {
              if (mnode->dirty()) rebuilt = true; else state->Reset();
            }
            ctx.trace.push_back({{"seq", ctx.seq++}, {"ev", "regen_end"}, {"rebuilt", rebuilt}, {"err", rerr}});
          }
        }
        b->command_runner_.release();   // keep the runner object alive for the trace; Cleanup must not see stale edges
        ctx.runner = nullptr;
        // ~Builder would run Cleanup(): do it explicitly like the stack object in ninja.cc
        b->Cleanup();
        if (rebuilt) {
          ctx.regen.push_back(cycle);
          if (dry) { ctx.phase = "regen_dry"; EmitResult(ctx.Result(false, true)); return; }
          restart = true;
        } else if (!rerr.empty()) {
          bl->Close(); dl->Close();
          ctx.phase = "regen"; ctx.status = 1; ctx.err = rerr; EmitResult(ctx.Result(false, true)); return;
        }
      }
    }
    if (restart) { bl->Close(); dl->Close(); continue; }
    // --- ParsePreviousElapsedTimes
    for (Edge* edge : state->edges_) for (Node* out : edge->outputs_) {
      BuildLog::LogEntry* le = bl->LookupByOutput(out->path());
      if (!le) continue;
      edge->prev_elapsed_time_millis = le->end_time - le->start_time;
      break;
    }
    // --- RunBuild
    Builder* b = new Builder(state, *cfg, bl, dl, &fs, st, 0);
    make_runner(b);
    vector<Node*> targets;
    bool ok = true;
    if (in["targets"].empty()) {
      string derr;
      targets = state->DefaultNodes(&derr);
      if (!derr.empty()) { ctx.err = derr; ok = false; ctx.phase = "targets"; ctx.status = 1; }
    } else {
      for (auto& t : in["targets"]) {
        string p = t.get<string>(); uint64_t sb; CanonicalizePath(&p, &sb);
        Node* n = state->LookupNode(p);
        if (!n) { ctx.err = "unknown target '" + p + "'"; ok = false; ctx.phase = "targets"; ctx.status = 1; break; }
        targets.push_back(n);
      }
    }
    if (ok) for (Node* t : targets) {
      string terr;
      if (!b->AddTarget(t, &terr) && !terr.empty()) { ctx.err = terr; ok = false; ctx.phase = "addtarget"; ctx.status = 1; break; }
    }
    if (ok) {
      if (b->AlreadyUpToDate()) { ctx.phase = "uptodate"; ctx.status = 0; }
      else {
        ctx.status = b->Build(&ctx.err);
        if (ctx.status != 0 && ctx.err.find("interrupted by user") != string::npos) ctx.status = 130;
      }
    }
    b->Cleanup();   // what ~Builder does when RunBuild returns
    bl->Close(); dl->Close();
    json res = ctx.Result(false, !ctx.enumerate);
    // dump what the state knows (for order/pool oracles): dyndep-loaded inputs per edge at the end
    json edges = json::object();
    for (Edge* e : state->edges_) {
      if (e->outputs_.empty()) continue;
      json ins = json::array();
      for (size_t i = 0; i < e->inputs_.size(); ++i)
        ins.push_back({e->inputs_[i]->path(), e->is_order_only(i) ? "oo" : e->is_implicit(i) ? "imp" : "exp"});
      json outs = json::array(); for (Node* o : e->outputs_) outs.push_back(o->path());
      edges[EdgeKey(e)] = {{"ins", ins}, {"outs", outs}, {"ready", e->outputs_ready()}, {"phony", e->is_phony()}};
    }
    res["final_edges"] = edges;
    if (ctx.enumerate) { res["paths"] = shared[0]; res["truncated"] = shared[1] != 0; }
    EmitResult(res);
    return;
  }
  ctx.phase = "regen_loop"; ctx.status = 1; ctx.err = "manifest still dirty after 100 tries";
  EmitResult(ctx.Result(false, true));
}
