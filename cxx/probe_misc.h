#include <set>
#include <algorithm>
// Other probe request kinds: manifest dump, build-log / deps-log op interpreters, cleaner, small pure functions.
#pragma once
#include "probe_sim.h"
#include "clparser.h"
#include "depfile_parser.h"
#include "dyndep.h"
#include "dyndep_parser.h"
#include "json.h"
#include <sys/stat.h>
#include <fcntl.h>

struct MemReader : FileReader {
  map<string, string> files;
  Status ReadFile(const string& p, string* c, string* err) override {
    auto i = files.find(p);
    if (i == files.end()) { *err = "No such file or directory"; return NotFound; }
    *c = i->second; return Okay;
  }
};

static json DumpState(State& state) {
  json out;
  json edges = json::array();
  const char* keys[] = {"command", "description", "depfile", "deps", "dyndep", "generator", "restat", "rspfile",
                        "rspfile_content", "msvc_deps_prefix", "pool"};
  // reverse direction of the symmetry check: every edge a node lists as consumer must have that node as an input, every
  // edge it lists as validation requester must name it as a validation
  std::set<Edge*> dangling;
  for (auto& kv : state.paths_) {
    Node* n = kv.second;
    for (Edge* oe : n->out_edges())
      if (std::find(oe->inputs_.begin(), oe->inputs_.end(), n) == oe->inputs_.end()) dangling.insert(oe);
    for (Edge* oe : n->validation_out_edges())
      if (std::find(oe->validations_.begin(), oe->validations_.end(), n) == oe->validations_.end()) dangling.insert(oe);
  }
  for (Edge* e : state.edges_) {
    json je;
    je["rule"] = e->rule().name();
    je["pool"] = e->pool()->name();
    json outs = json::array(); for (Node* o : e->outputs_) outs.push_back(o->path());
    je["outs"] = outs; je["implicit_outs"] = e->implicit_outs_;
    json ins = json::array();
    for (size_t i = 0; i < e->inputs_.size(); ++i)
      ins.push_back({e->inputs_[i]->path(), e->is_order_only(i) ? "oo" : e->is_implicit(i) ? "imp" : "exp"});
    je["ins"] = ins;
    je["counts"] = {e->implicit_deps_, e->order_only_deps_, (int)e->inputs_.size()};
    json vals = json::array(); for (Node* v : e->validations_) vals.push_back(v->path());
    je["validations"] = vals;
    json b;
    for (const char* k : keys) b[k] = e->GetBinding(k);
    b["depfile_raw"] = e->GetUnescapedDepfile(); b["rspfile_raw"] = e->GetUnescapedRspfile(); b["dyndep_raw"] = e->GetUnescapedDyndep();
    b["command_rsp"] = e->EvaluateCommand(true);
    je["bindings"] = b;
    je["dyndep_node"] = e->dyndep_ ? json(e->dyndep_->path()) : json(nullptr);
    // graph symmetry: every output's in_edge is e; every input lists e among out_edges
    bool sym = true;
    if (dangling.count(e)) sym = false;   // some node lists e as a consumer although e does not have it as an input
    for (Node* o : e->outputs_) if (o->in_edge() != e) sym = false;
    for (Node* i : e->inputs_) { bool f = false; for (Edge* oe : i->out_edges()) if (oe == e) f = true; if (!f) sym = false; }
    for (Node* v : e->validations_) { bool f = false; for (Edge* oe : v->validation_out_edges()) if (oe == e) f = true; if (!f) sym = false; }
    je["symmetric"] = sym;
    edges.push_back(je);
  }
  out["edges"] = edges;
  json pools; for (auto& kv : state.pools_) pools[kv.first] = kv.second->depth();
  out["pools"] = pools;
  json defs = json::array(); for (Node* n : state.defaults_) defs.push_back(n->path());
  out["defaults"] = defs;
  return out;
}

static void HandleManifest(const json& in) {
  MemReader r;
  for (auto& [k, v] : in["files"].items()) r.files[k] = v.get<string>();
  State state; string err;
  ManifestParserOptions opts;
  if (in.value("phonycycle_err", false)) opts.phony_cycle_action_ = kPhonyCycleActionError;
  ManifestParser p(&state, &r, opts);
  if (!p.Load(in.value("main", "build.ninja"), &err)) { EmitResult({{"ok", false}, {"err", err}}); return; }
  json out = DumpState(state);
  out["ok"] = true;
  EmitResult(out);
}

static json B64ish(const string& s) { return s; }

// ---------------------------------------------------------------- build log op interpreter (C08)
struct SetUser : BuildLogUser {
  set<string> dead;
  bool IsPathDead(StringPiece s) const override { return dead.count(s.AsString()) > 0; }
};
static string FromHex(const string& h) {
  string o; for (size_t i = 0; i + 1 < h.size(); i += 2) o += (char)strtol(h.substr(i, 2).c_str(), nullptr, 16); return o;
}
static string ToHex(const string& s) { static const char* d = "0123456789abcdef"; string o; for (unsigned char c : s) { o += d[c >> 4]; o += d[c & 15]; } return o; }
static string ReadAll(const string& p) { string c, e; if (::ReadFile(p, &c, &e) != 0) return ""; return c; }
static void WriteAll(const string& p, const string& c) { FILE* f = fopen(p.c_str(), "wb"); if (f) { fwrite(c.data(), 1, c.size(), f); fclose(f); } }

static json DumpEntries(BuildLog& bl) {
  json j = json::object();
  for (auto& kv : bl.entries())
    j[ToHex(kv.first.AsString())] = {{"hash", Hex(kv.second->command_hash)}, {"mtime", kv.second->mtime},
                                     {"start", kv.second->start_time}, {"end", kv.second->end_time}};
  return j;
}

// ops (all names hex-encoded so that any byte can occur):
//  {"op":"open", "dead":[hex..]}            Load + OpenForWrite (recompacts if needed, as ninja does at start-up)
//  {"op":"record","outs":[hex..],"cmd":hex,"start":,"end":,"mtime":}
//  {"op":"close"}   {"op":"truncate","n":}  {"op":"append_raw","bytes":hex}  {"op":"set_raw","bytes":hex}
//  {"op":"load_dump"}  fresh BuildLog::Load of the file: entries + status + warning
//  {"op":"recompact","dead":[..]}  {"op":"restat","outs":[hex..],"mtimes":{hexpath: mtime}}
//  {"op":"tear_scan","from":a,"to":b}  for every n in [a,b]: copy of the file truncated to n, Load, dump (compact)
// bounds the work and the size of the answer of a tear scan: offsets x file size stays below ~48 MB by thinning the
// middle (both ends, where headers and the most recent records live, keep their share)
static void ThinOffsets(vector<int64_t>* offs, size_t file_size) {
  const double budget = 48e6;
  if (offs->empty() || (double)offs->size() * (double)(file_size + 1) <= budget) return;
  size_t keep = (size_t)(budget / (double)(file_size + 1));
  if (keep < 120) keep = 120;
  if (keep >= offs->size()) return;
  size_t third = keep / 3;
  vector<int64_t> out(offs->begin(), offs->begin() + third);
  size_t mid_lo = third, mid_hi = offs->size() - third;
  for (size_t i = 0; i < third; ++i) out.push_back((*offs)[mid_lo + (mid_hi - mid_lo) * i / third]);
  out.insert(out.end(), offs->end() - third, offs->end());
  offs->swap(out);
}

static void HandleBuildLog(const json& in) {
  string dir = in["dir"]; string path = dir + "/.ninja_log";
  BuildLog* bl = nullptr; SetUser user;
  json out = json::array();
  State state;
  for (auto& op : in["ops"]) {
    string k = op["op"];
    json r = {{"op", k}};
    if (k == "open") {
      delete bl; bl = new BuildLog;
      user.dead.clear(); for (auto& d : op.value("dead", json::array())) user.dead.insert(FromHex(d));
      string err; LoadStatus st = bl->Load(path, &err);
      r["load"] = (int)st; r["warn"] = err; r["entries"] = DumpEntries(*bl);
      if (st != LOAD_ERROR) { string e2; bool ok = bl->OpenForWrite(path, user, &e2); r["open_ok"] = ok; r["open_err"] = e2; }
    } else if (k == "record") {
      // build a one-off edge whose evaluated command is the given string
      State* st = new State;
      Rule* rule = new Rule("r");
      EvalString cmd; cmd.AddText(FromHex(op["cmd"]));
      rule->AddBinding("command", cmd);
      st->bindings_.AddRule(std::unique_ptr<Rule>(rule));
      Edge* e = st->AddEdge(rule);
      string err;
      for (auto& o : op["outs"]) st->AddOut(e, FromHex(o), 0, &err);
      r["hash"] = Hex(BuildLog::LogEntry::HashCommand(e->EvaluateCommand(true)));
      bool ok = bl && bl->RecordCommand(e, op.value("start", 0), op.value("end", 0), op.value("mtime", (int64_t)0));
      r["ok"] = ok;
    } else if (k == "close") {
      // the session ends here: the object must not live on (its destructor re-opens the file to make sure it exists,
      // which in a real process happens at exit, never after a later tear)
      if (bl) { bl->Close(); delete bl; bl = nullptr; }
    } else if (k == "truncate") {
      if (truncate(path.c_str(), op["n"].get<int64_t>()) != 0) r["errno"] = errno;
    } else if (k == "truncate_back") {
      struct stat sb; int64_t sz = stat(path.c_str(), &sb) == 0 ? (int64_t)sb.st_size : 0;
      int64_t n = sz - op["back"].get<int64_t>(); if (n < 0) n = 0;
      if (truncate(path.c_str(), n) != 0) r["errno"] = errno;
      r["n"] = n;
    } else if (k == "append_raw") {
      FILE* f = fopen(path.c_str(), "ab"); string b = FromHex(op["bytes"]); fwrite(b.data(), 1, b.size(), f); fclose(f);
    } else if (k == "set_raw") {
      WriteAll(path, FromHex(op["bytes"]));
    } else if (k == "load_dump") {
      // load a *copy* (a load can delete a file with an unsupported header; the probe must not disturb the history)
      struct stat sb; bool ex = stat(path.c_str(), &sb) == 0;
      r["exists"] = ex; r["size"] = ex ? (int64_t)sb.st_size : -1;
      string tmp = dir + "/probe.log";
      if (ex) WriteAll(tmp, ReadAll(path)); else unlink(tmp.c_str());
      BuildLog b2; string err; LoadStatus st = b2.Load(tmp, &err);
      r["load"] = (int)st; r["warn"] = err; r["entries"] = DumpEntries(b2);
      r["copy_exists_after"] = stat(tmp.c_str(), &sb) == 0;
      unlink(tmp.c_str());
    } else if (k == "dump") {
      if (bl) r["entries"] = DumpEntries(*bl);
    } else if (k == "raw") {
      r["bytes"] = ToHex(ReadAll(path));
    } else if (k == "recompact") {
      user.dead.clear(); for (auto& d : op.value("dead", json::array())) user.dead.insert(FromHex(d));
      string err; bool ok = bl && bl->Recompact(path, user, &err); r["ok"] = ok; r["err"] = err;
      if (bl) r["entries"] = DumpEntries(*bl);
    } else if (k == "restat") {
      VFS fs;
      for (auto& [p, m] : op["mtimes"].items()) fs.files[FromHex(p)] = {m.get<int64_t>(), ""};
      vector<string> names; for (auto& o : op.value("outs", json::array())) names.push_back(FromHex(o));
      vector<char*> ptrs; for (auto& n : names) ptrs.push_back(&n[0]);
      string err;
      bool ok = bl && bl->Restat(path, fs, (int)ptrs.size(), ptrs.empty() ? nullptr : ptrs.data(), &err);
      r["ok"] = ok; r["err"] = err;
      if (bl) r["entries"] = DumpEntries(*bl);
    } else if (k == "tear_scan") {
      string all = ReadAll(path);
      string tmp = dir + "/tear.log";
      json scans = json::array(); json prev_entries;
      int64_t a = op.value("from", (int64_t)0), b = op.value("to", (int64_t)all.size());
      if (b > (int64_t)all.size()) b = all.size();
      vector<int64_t> offs;
      if (op.contains("offsets")) for (auto& o : op["offsets"]) offs.push_back(o.get<int64_t>());
      else if ((int64_t)all.size() <= 4096) for (int64_t n = a; n <= b; ++n) offs.push_back(n);
      else {  // stratified: both ends completely, the middle sparsely
        for (int64_t n = 0; n < 600; ++n) offs.push_back(n);
        for (int64_t n = 600; n + 600 < (int64_t)all.size(); n += 997) offs.push_back(n);
        for (int64_t n = (int64_t)all.size() - 600; n <= (int64_t)all.size(); ++n) offs.push_back(n);
      }
      ThinOffsets(&offs, all.size());
      for (int64_t n : offs) {
        if (n < 0 || n > (int64_t)all.size()) continue;
        WriteAll(tmp, all.substr(0, n));
        BuildLog b2; string err; LoadStatus st = b2.Load(tmp, &err);
        struct stat sb; bool ex = stat(tmp.c_str(), &sb) == 0;
        // consecutive offsets inside one record load the same state: send it once (the result stays linear in the file)
        json ents = DumpEntries(b2);
        json sc = {{"n", n}, {"load", (int)st}, {"warn", err}, {"exists", ex}};
        if (!scans.empty() && ents == prev_entries) sc["entries_same"] = true; else { sc["entries"] = ents; prev_entries = ents; }
        scans.push_back(sc);
        unlink(tmp.c_str());
      }
      r["scans"] = scans; r["size"] = (int64_t)all.size();
    }
    out.push_back(r);
  }
  if (bl) bl->Close();
  EmitResult({{"results", out}});
}

// ---------------------------------------------------------------- deps log op interpreter (C09)
static json DumpDeps(DepsLog& dl) {
  json j = json::object();
  const vector<Node*>& nodes = dl.nodes();
  for (size_t i = 0; i < nodes.size(); ++i) {
    Node* n = nodes[i];
    if (n->id() < 0) continue;
    DepsLog::Deps* d = dl.GetDeps(n);
    if (!d) continue;
    json ins = json::array();
    for (int k = 0; k < d->node_count; k++) ins.push_back(ToHex(d->nodes[k]->path()));
    j[ToHex(n->path())] = {{"mtime", d->mtime}, {"ins", ins}};
  }
  return j;
}
static json DumpNodePaths(DepsLog& dl) { json a = json::array(); for (Node* n : dl.nodes()) a.push_back(ToHex(n->path())); return a; }

//  {"op":"open"}  Load + OpenForWrite          {"op":"record","out":hex,"mtime":,"ins":[hex..]}
//  {"op":"close"} {"op":"truncate","n":} {"op":"append_raw","bytes":hex} {"op":"set_raw"} {"op":"raw"}
//  {"op":"load_dump"}  fresh load: deps + node paths + file size after load (load truncates torn tails)
//  {"op":"recompact","live":[hex..]}  outputs that still have a build statement with deps
//  {"op":"tear_scan", ...}  as build log; after each load also reports the file size after recovery
static void SetupLive(State* st, const json& live) {
  Rule* rule = new Rule("cc");
  EvalString cmd; cmd.AddText("cc");
  rule->AddBinding("command", cmd);
  EvalString deps; deps.AddText("gcc");
  rule->AddBinding("deps", deps);
  st->bindings_.AddRule(std::unique_ptr<Rule>(rule));
  // a second rule without 'deps': statements using it bind deps at the build statement (every other live output), or
  // inherit it from the file scope (every fourth) - all three are "a build statement using deps"
  Rule* plain = new Rule("plain");
  EvalString cmd2; cmd2.AddText("cc2");
  plain->AddBinding("command", cmd2);
  st->bindings_.AddRule(std::unique_ptr<Rule>(plain));
  int idx = 0;
  for (auto& o : live) {
    int how = idx++ % 4;
    Edge* e = st->AddEdge(how == 0 || how == 2 ? rule : plain);
    if (how == 1) { e->env_ = new BindingEnv(&st->bindings_); e->has_own_env_ = true; e->env_->AddBinding("deps", "gcc"); }
    if (how == 3) { BindingEnv* file_scope = new BindingEnv(&st->bindings_); file_scope->AddBinding("deps", "gcc"); e->env_ = file_scope; }
    string err; st->AddOut(e, FromHex(o), 0, &err);
  }
}
static void HandleDepsLog(const json& in) {
  string dir = in["dir"]; string path = dir + "/.ninja_deps";
  DepsLog* dl = nullptr; State* state = nullptr;
  json out = json::array();
  auto fsize = [](const string& p) { struct stat sb; return stat(p.c_str(), &sb) == 0 ? (int64_t)sb.st_size : (int64_t)-1; };
  for (auto& op : in["ops"]) {
    string k = op["op"];
    json r = {{"op", k}};
    if (k == "open") {
      if (dl) dl->Close();
      dl = new DepsLog; state = new State;
      if (op.contains("live")) SetupLive(state, op["live"]);
      string err; LoadStatus st = dl->Load(path, state, &err);
      r["load"] = (int)st; r["warn"] = err; r["deps"] = DumpDeps(*dl); r["paths"] = DumpNodePaths(*dl);
      r["size_after_load"] = fsize(path);
      if (st != LOAD_ERROR) { string e2; bool ok = dl->OpenForWrite(path, &e2); r["open_ok"] = ok; r["open_err"] = e2; }
      r["size_after_open"] = fsize(path);
      r["deps_after_open"] = DumpDeps(*dl);
    } else if (k == "record") {
      Node* o = state->GetNode(FromHex(op["out"]), 0);
      vector<Node*> ins; for (auto& i : op["ins"]) ins.push_back(state->GetNode(FromHex(i), 0));
      r["ok"] = dl->RecordDeps(o, op.value("mtime", (int64_t)1), ins);
    } else if (k == "close") {
      if (dl) dl->Close();
    } else if (k == "truncate_back") {
      int64_t sz = fsize(path); if (sz < 0) sz = 0;
      int64_t n = sz - op["back"].get<int64_t>(); if (n < 0) n = 0;
      if (truncate(path.c_str(), n) != 0) r["errno"] = errno;
      r["n"] = n;
    } else if (k == "append_raw") {
      FILE* f = fopen(path.c_str(), "ab"); string b = FromHex(op["bytes"]); fwrite(b.data(), 1, b.size(), f); fclose(f);
    } else if (k == "append_damage") {
      // one structurally malformed record behind the current content; field values refer to the number of paths
      // the file defines right now (learned from a load of a copy)
      string tmp = dir + "/probe.deps"; WriteAll(tmp, ReadAll(path));
      State s2; DepsLog d2; string err; d2.Load(tmp, &s2, &err); unlink(tmp.c_str());
      int np = (int)d2.nodes().size();
      string first = np ? d2.nodes()[0]->path() : string("dup");
      auto u32 = [](uint32_t v) { return string((const char*)&v, 4); };
      auto deps_rec = [&](int out, vector<int> ins) { string b = u32((12 + 4 * ins.size()) | 0x80000000u) + u32((uint32_t)out) + u32(5) + u32(0); for (int i : ins) b += u32((uint32_t)i); return b; };
      auto path_rec = [&](const string& p, int idx) { size_t pad = (4 - p.size() % 4) % 4; return u32(p.size() + pad + 4) + p + string(pad, '\0') + u32(~(uint32_t)idx); };
      string kind = op["kind"], b;
      if (kind == "deps_size4") b = u32(4 | 0x80000000u) + u32(0);
      else if (kind == "deps_size8") b = u32(8 | 0x80000000u) + u32(0) + u32(1);
      else if (kind == "neg_out") b = deps_rec(-1, {});
      else if (kind == "big_out") b = deps_rec(np, {});
      else if (kind == "huge_out") b = deps_rec(0x7ffffff0, {});
      else if (kind == "neg_in") b = np ? deps_rec(0, {-2}) : deps_rec(0, {});
      else if (kind == "big_in") b = np ? deps_rec(0, {np + 3}) : deps_rec(3, {});
      else if (kind == "unaligned_path") b = u32(6) + "zz" + u32(~(uint32_t)np);
      else if (kind == "nul_path") b = u32(8) + string(4, '\0') + u32(~(uint32_t)np);
      else if (kind == "bad_checksum") b = path_rec(op.contains("path") ? FromHex(op["path"]) : string("chk"), np + 1 + op.value("skew", 0));
      else if (kind == "dup_path") b = path_rec(first, np);
      else if (kind == "oversize") b = u32((1 << 19)) + string(64, 'x');
      else if (kind == "unaligned_deps") b = u32(13 | 0x80000000u) + string(13, '\0');
      else b = u32(0);
      FILE* f = fopen(path.c_str(), "ab"); fwrite(b.data(), 1, b.size(), f); fclose(f);
    } else if (k == "set_raw") {
      WriteAll(path, FromHex(op["bytes"]));
    } else if (k == "raw") {
      r["exists"] = fsize(path) >= 0;
      r["bytes"] = ToHex(ReadAll(path));
    } else if (k == "load_dump") {
      // on a copy: Load truncates / unlinks as part of recovery and the probe must not disturb the history
      string tmp = dir + "/probe.deps";
      bool ex = fsize(path) >= 0;
      if (ex) WriteAll(tmp, ReadAll(path)); else unlink(tmp.c_str());
      State s2; DepsLog d2; string err; LoadStatus st = d2.Load(tmp, &s2, &err);
      r["exists"] = ex;
      r["load"] = (int)st; r["warn"] = err; r["deps"] = DumpDeps(d2); r["paths"] = DumpNodePaths(d2);
      r["size_after_load"] = fsize(tmp);
      unlink(tmp.c_str());
    } else if (k == "recompact") {
      // liveness is decided through the State: a deps entry is live iff its output has an in-edge with a deps binding
      if (dl) dl->Close();
      dl = new DepsLog; state = new State;
      SetupLive(state, op.value("live", json::array()));
      string err; LoadStatus st = dl->Load(path, state, &err);
      r["load"] = (int)st; r["before"] = DumpDeps(*dl);
      bool ok = dl->Recompact(path, &err); r["ok"] = ok; r["err"] = err;
      r["deps"] = DumpDeps(*dl);
      string e2; dl->OpenForWrite(path, &e2);
    } else if (k == "tear_scan") {
      string all = ReadAll(path);
      string tmp = dir + "/tear.deps";
      json scans = json::array(); json prev_deps, prev_reload; bool have_prev_reload = false;
      vector<int64_t> offs;
      if (op.contains("offsets")) for (auto& o : op["offsets"]) offs.push_back(o.get<int64_t>());
      else if ((int64_t)all.size() <= 3000) for (int64_t n = 0; n <= (int64_t)all.size(); ++n) offs.push_back(n);
      else {
        for (int64_t n = 0; n < 500; ++n) offs.push_back(n);
        for (int64_t n = 500; n + 500 < (int64_t)all.size(); n += 499) offs.push_back(n);
        for (int64_t n = (int64_t)all.size() - 500; n <= (int64_t)all.size(); ++n) offs.push_back(n);
      }
      string tail = FromHex(op.value("tail", string("")));
      ThinOffsets(&offs, all.size());
      for (int64_t n : offs) {
        if (n < 0 || n > (int64_t)all.size()) continue;
        WriteAll(tmp, all.substr(0, n) + tail);
        State s2; DepsLog d2; string err; LoadStatus st = d2.Load(tmp, &s2, &err);
        json sc = {{"n", n}, {"load", (int)st}, {"warn", err}, {"npaths", (int)d2.nodes().size()}, {"size_after_load", fsize(tmp)}};
        {
          json dd = DumpDeps(d2);
          if (!scans.empty() && dd == prev_deps) sc["deps_same"] = true; else { sc["deps"] = dd; prev_deps = dd; }
        }
        if (op.value("then_append", false) && st != LOAD_ERROR) {
          // a later session appends one record behind the recovered prefix; a third session must see everything
          string e2; d2.OpenForWrite(tmp, &e2);
          Node* o = s2.GetNode("appended.o", 0); vector<Node*> ins{s2.GetNode("appended.h", 0)};
          bool ok = d2.RecordDeps(o, 4242, ins); d2.Close();
          State s3; DepsLog d3; string e3; LoadStatus st3 = d3.Load(tmp, &s3, &e3);
          sc["append_ok"] = ok; sc["reload"] = (int)st3; sc["reload_warn"] = e3;
          json rd = DumpDeps(d3);
          if (have_prev_reload && rd == prev_reload) sc["reload_deps_same"] = true; else { sc["reload_deps"] = rd; prev_reload = rd; have_prev_reload = true; }
        }
        scans.push_back(sc);
        unlink(tmp.c_str());
      }
      r["scans"] = scans; r["size"] = (int64_t)all.size();
    }
    out.push_back(r);
  }
  if (dl) dl->Close();
  EmitResult({{"results", out}});
}

// ---------------------------------------------------------------- cleaner on the virtual disk (C18)
static void HandleClean(const json& in) {
  VFS fs; fs.LoadJson(in);
  State state; string err;
  {
    ManifestParser parser(&state, &fs);
    if (!parser.Load(in.value("manifest", "build.ninja"), &err)) { EmitResult({{"phase", "parse"}, {"err", err}}); return; }
  }
  string logdir = in["logdir"];
  BuildLog bl; DepsLog dl; string e2;
  bl.Load(logdir + "/.ninja_log", &e2); e2.clear();
  dl.Load(logdir + "/.ninja_deps", &state, &e2);
  BuildConfig cfg; cfg.verbosity = BuildConfig::QUIET; cfg.dry_run = in.value("dry_run", false);
  Cleaner cleaner(&state, cfg, &fs);
  string mode = in.value("mode", "all");
  int rc = 0;
  if (mode == "all") rc = cleaner.CleanAll(in.value("generator", false));
  else if (mode == "targets" || mode == "rules") {
    vector<string> names; for (auto& t : in["names"]) names.push_back(t.get<string>());
    vector<char*> ptrs; for (auto& n : names) ptrs.push_back(&n[0]);
    rc = mode == "targets" ? cleaner.CleanTargets((int)ptrs.size(), ptrs.data()) : cleaner.CleanRules((int)ptrs.size(), ptrs.data());
  } else if (mode == "dead") rc = cleaner.CleanDead(bl.entries());
  json removed = json::array(); for (auto& p : fs.removed) removed.push_back(p);
  EmitResult({{"phase", "clean"}, {"rc", rc}, {"removed", removed}, {"count", cleaner.cleaned_files_count()},
              {"files", fs.FilesJson()}});
}

// ---------------------------------------------------------------- small pure functions
static void HandleShellEscape(const json& in) {
  // for each case: evaluate `argdump $in -- $out` and `$in_newline` for an edge with the given (hex) input/output names
  json results = json::array();
  for (auto& c : in["cases"]) {
    State state;
    Rule* rule = new Rule("r");
    EvalString cmd;
    // "cmdword": the first input is the command word itself (`$in -- $out`)
    if (!c.value("cmdword", false)) cmd.AddText("argdump ");
    cmd.AddSpecial("in"); cmd.AddText(" -- "); cmd.AddSpecial("out");
    rule->AddBinding("command", cmd);
    EvalString rc; rc.AddSpecial("in_newline");
    rule->AddBinding("rspfile_content", rc);
    state.bindings_.AddRule(std::unique_ptr<Rule>(rule));
    Edge* e = state.AddEdge(rule);
    string err;
    for (auto& i : c["ins"]) state.AddIn(e, FromHex(i), 0);
    for (auto& o : c["outs"]) state.AddOut(e, FromHex(o), 0, &err);
    results.push_back({{"command", ToHex(e->EvaluateCommand())}, {"in_newline", ToHex(e->GetBinding("rspfile_content"))}});
  }
  EmitResult({{"results", results}});
}

static void HandleDepfile(const json& in) {
  string content = FromHex(in["content"]);
  DepfileParserOptions opts;
  DepfileParser p(opts);
  string err;
  bool ok = p.Parse(&content, &err);
  json outs = json::array(), ins = json::array();
  if (ok) { for (auto& o : p.outs_) outs.push_back(ToHex(o.AsString())); for (auto& i : p.ins_) ins.push_back(ToHex(i.AsString())); }
  EmitResult({{"ok", ok}, {"err", err}, {"outs", outs}, {"ins", ins}});
}

static bool HandleMisc(const string& kind, const json& req) {
  if (kind == "manifest") HandleManifest(req);
  else if (kind == "buildlog") HandleBuildLog(req);
  else if (kind == "depslog") HandleDepsLog(req);
  else if (kind == "clean") HandleClean(req);
  else if (kind == "shell_escape") HandleShellEscape(req);
  else if (kind == "depfile") HandleDepfile(req);
  else if (kind == "ping") EmitResult({{"pong", true}});
  else if (kind == "crash_test") { volatile int* p = nullptr; *p = 1; }
  else if (kind == "hang_test") { for (;;) {} }
  else return false;
  return true;
}
