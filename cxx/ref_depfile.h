// C15 oracle: encoders for the Makefile dialect GCC (libcpp/mkdeps.c munge) and Clang (DependencyFile.cpp
// PrintFilename, Make format) emit, layouts, and the round-trip check against DepfileParser.
#pragma once
#include <string>
#include <vector>
#include "depfile_parser.h"

namespace c15 {
using std::string;
using std::vector;

inline string GccMunge(const string& n) {
  string out;
  for (size_t i = 0; i < n.size(); i++) {
    char c = n[i];
    if (c == ' ' || c == '\t') {
      for (size_t j = i; j > 0 && n[j - 1] == '\\'; j--) out += '\\';
      out += '\\';
    } else if (c == '$') out += '$';
    else if (c == '#') out += '\\';
    out += c;
  }
  return out;
}
inline string ClangMunge(const string& n) {
  string out;
  for (size_t i = 0; i < n.size(); i++) {
    char c = n[i];
    if (c == ' ') {
      out += '\\';
      for (size_t j = i; j > 0 && n[j - 1] == '\\'; j--) out += '\\';
    } else if (c == '$') out += '$';
    else if (c == '#') out += '\\';
    out += c;
  }
  return out;
}
inline string EscapeColons(const string& s) {  // target names: ':' is written as '\:'
  string o; for (char c : s) { if (c == ':') o += '\\'; o += c; } return o;
}
// names the dialect itself cannot carry (excluded by construction, counted)
inline bool Representable(const string& n) {
  if (n.empty()) return false;
  for (unsigned char c : n) if (c == 0 || c == '\r' || c == '\n') return false;
  if (n.back() == '\\' || n.back() == ':') return false;
  if (n.find("\\:") != string::npos) return false;
  return true;
}
// D11 (known finding): bytes outside the scanner's plain-text class end a file name; "\$" swallows the first '$' of "$$"
inline bool InD11Class(const string& n) {
  for (size_t i = 0; i < n.size(); i++) {
    unsigned char c = n[i];
    if (c == '*' || c == ';' || c == '<' || c == '>' || c == '^' || c == '`' || c == '|' || c == 0x7f || (c < 0x20)) return true;
    if (c == '\\' && i + 1 < n.size() && n[i + 1] == '$') return true;
  }
  return false;
}
struct Case { vector<string> targets, deps; int encoder = 0; int layout = 0; };
enum { kLayouts = 8 };
inline string Encode(const Case& c) {
  auto enc = [&](const string& s) { return c.encoder ? ClangMunge(s) : GccMunge(s); };
  string nl = (c.layout == 2 || c.layout == 3) ? "\r\n" : "\n";
  string cont = " \\" + nl + "  ";
  string t;
  for (size_t i = 0; i < c.targets.size(); i++) { if (i) t += ' '; t += EscapeColons(enc(c.targets[i])); }
  string out;
  if (c.layout == 5 && !c.deps.empty()) {        // one rule per dependency
    for (auto& d : c.deps) out += t + ": " + enc(d) + nl;
    return out;
  }
  out = t + ":";
  vector<string> deps = c.deps;
  if (c.layout == 7) { vector<string> twice = deps; for (auto& d : deps) twice.push_back(d); deps = twice; }
  for (auto& d : deps) out += ((c.layout == 1 || c.layout == 3) ? cont : string(" ")) + enc(d);
  if (c.layout == 4) out += "  \t ";
  out += nl;
  if (c.layout == 6) for (auto& d : c.deps) out += nl + enc(d) + ":" + nl;   // -MP phony rules
  return out;
}
inline vector<string> Dedup(const vector<string>& v) {
  vector<string> o; for (auto& s : v) { bool f = false; for (auto& x : o) if (x == s) f = true; if (!f) o.push_back(s); } return o;
}
inline string Show(const vector<string>& v) { string s = "["; for (auto& x : v) s += "'" + x + "' "; return s + "]"; }
// "" if the round trip holds, else a description
inline string Check(const Case& c) {
  string text = Encode(c);
  string buf = text;
  DepfileParser p((DepfileParserOptions()));
  string err;
  if (!p.Parse(&buf, &err)) return "rejected: " + err + " for depfile <" + text + ">";
  vector<string> outs, ins;
  for (auto& o : p.outs_) outs.push_back(o.AsString());
  for (auto& i : p.ins_) ins.push_back(i.AsString());
  // every StringPiece must lie inside the buffer
  for (auto& o : p.outs_) if (o.str_ < buf.data() || o.str_ + o.len_ > buf.data() + buf.size()) return "output piece outside the buffer";
  for (auto& i : p.ins_) if (i.str_ < buf.data() || i.str_ + i.len_ > buf.data() + buf.size()) return "input piece outside the buffer";
  if (outs != Dedup(c.targets)) return "targets read back as " + Show(outs) + " want " + Show(Dedup(c.targets)) + " from <" + text + ">";
  if (ins != Dedup(c.deps)) return "dependencies read back as " + Show(ins) + " want " + Show(Dedup(c.deps)) + " from <" + text + ">";
  return "";
}
inline string CheckRejections(const string& a, const string& b) {
  // no ':' at all
  { string t = GccMunge(a) + " " + GccMunge(b) + "\n"; DepfileParser p((DepfileParserOptions())); string e;
    if (p.Parse(&t, &e)) return "depfile without ':' accepted"; }
  // a dependency reappears as a target that has its own dependencies
  if (a != b) { string t = "out.o: " + GccMunge(a) + "\n" + EscapeColons(GccMunge(a)) + ": " + GccMunge(b) + "\n"; DepfileParser p((DepfileParserOptions())); string e;
    if (p.Parse(&t, &e)) return "dependency with its own dependencies accepted: <" + t + ">"; }
  return "";
}
}  // namespace c15
