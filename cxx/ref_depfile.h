// C15 oracle: encoders for the Makefile dialect GCC (libcpp/mkdeps.c munge) and Clang (DependencyFile.cpp
// PrintFilename, Make format) emit, layouts, and the round-trip check against DepfileParser.
#pragma once
#include <string>
#include <vector>
#include "depfile_parser.h"

namespace c15 {
using std::string;
using std::vector;

inline string GccMunge(const string& n) {
  string out;
  for (size_t i = 0; i < n.size(); i++) {
    char c = n[i];
    if (c == ' ' || c == '\t') {
      for (size_t j = i; j > 0 && n[j - 1] == '\\'; j--) out += '\\';
      out += '\\';
    } else if (c == '$') out += '$';
    else if (c == '#') out += '\\';
    out += c;
  }
  return out;
}
inline string ClangMunge(const string& n) {
  string out;
  for (size_t i = 0; i < n.size(); i++) {
    char c = n[i];
    if (c == ' ') {
      out += '\\';
      for (size_t j = i; j > 0 && n[j - 1] == '\\'; j--) out += '\\';
    } else if (c == '$') out += '$';
    else if (c == '#') out += '\\';
    out += c;
  }
  return out;
}
inline string EscapeColons(const string& s) {  // target names: ':' is written as '\:'
  string o; for (char c : s) { if (c == ':') o += '\\'; o += c; } return o;
}
// names the dialect itself cannot carry (excluded by construction, counted)
inline bool Representable(const string& n) {
  if (n.empty()) return false;
  for (unsigned char c : n) if (c == 0 || c == '\r' || c == '\n') return false;
  if (n.back() == '\\' || n.back() == ':') return false;
  if (n.find("\\:") != string::npos) return false;
  return true;
}
// A name that ends in an even, non-zero number of backslashes can be carried as a dependency that is followed by a
// blank on the same line ("2N backslashes + space" reads as 2N backslashes, end of name); not at the end of a line
// (backslash-newline is a continuation), not as a target (`\:` is an escaped colon), not before a ':' of its own rule.
inline bool EvenTrailingBackslashes(const string& n) {
  size_t k = 0; while (k < n.size() && n[n.size() - 1 - k] == '\\') k++;
  return k > 0 && k % 2 == 0;
}
inline bool RepresentableMidLine(const string& n) {
  if (Representable(n)) return true;
  if (n.empty() || !EvenTrailingBackslashes(n)) return false;
  for (unsigned char c : n) if (c == 0 || c == '\r' || c == '\n') return false;
  return n.find("\\:") == string::npos;
}
// D11 (known finding): bytes outside the scanner's plain-text class end a file name; "\$" swallows the first '$' of "$$"
inline bool InD11Class(const string& n) {
  for (size_t i = 0; i < n.size(); i++) {
    unsigned char c = n[i];
    if (c == '*' || c == ';' || c == '<' || c == '>' || c == '^' || c == '`' || c == '|' || c == 0x7f || (c < 0x20)) return true;
    if (c == '\\' && i + 1 < n.size() && n[i + 1] == '$') return true;
  }
  return false;
}
struct Case { vector<string> targets, deps; int encoder = 0; int layout = 0; };
enum { kLayouts = 8 };
inline string Encode(const Case& c) {
  auto enc = [&](const string& s) { return c.encoder ? ClangMunge(s) : GccMunge(s); };
  string nl = (c.layout == 2 || c.layout == 3) ? "\r\n" : "\n";
  string cont = " \\" + nl + "  ";
  string t;
  for (size_t i = 0; i < c.targets.size(); i++) { if (i) t += ' '; t += EscapeColons(enc(c.targets[i])); }
  string out;
  if (c.layout == 5 && !c.deps.empty()) {        // one rule per dependency
    for (auto& d : c.deps) out += t + ": " + enc(d) + nl;
    return out;
  }
  out = t + ":";
  vector<string> deps = c.deps;
  if (c.layout == 7) { vector<string> twice = deps; for (auto& d : deps) twice.push_back(d); deps = twice; }
  for (auto& d : deps) out += ((c.layout == 1 || c.layout == 3) ? cont : string(" ")) + enc(d);
  if (c.layout == 4) out += "  \t ";
  out += nl;
  if (c.layout == 6) for (auto& d : c.deps) out += nl + enc(d) + ":" + nl;   // -MP phony rules
  return out;
}
inline vector<string> Dedup(const vector<string>& v) {
  vector<string> o; for (auto& s : v) { bool f = false; for (auto& x : o) if (x == s) f = true; if (!f) o.push_back(s); } return o;
}
inline string Show(const vector<string>& v) { string s = "["; for (auto& x : v) s += "'" + x + "' "; return s + "]"; }
// "" if the round trip holds, else a description
inline string Check(const Case& c) {
  string text = Encode(c);
  string buf = text;
  DepfileParser p((DepfileParserOptions()));
  string err;
  if (!p.Parse(&buf, &err)) return "rejected: " + err + " for depfile <" + text + ">";
  vector<string> outs, ins;
  for (auto& o : p.outs_) outs.push_back(o.AsString());
  for (auto& i : p.ins_) ins.push_back(i.AsString());
  // every StringPiece must lie inside the buffer
  for (auto& o : p.outs_) if (o.str_ < buf.data() || o.str_ + o.len_ > buf.data() + buf.size()) return "output piece outside the buffer";
  for (auto& i : p.ins_) if (i.str_ < buf.data() || i.str_ + i.len_ > buf.data() + buf.size()) return "input piece outside the buffer";
  if (outs != Dedup(c.targets)) return "targets read back as " + Show(outs) + " want " + Show(Dedup(c.targets)) + " from <" + text + ">";
  if (ins != Dedup(c.deps)) return "dependencies read back as " + Show(ins) + " want " + Show(Dedup(c.deps)) + " from <" + text + ">";
  return "";
}
inline string CheckRejections(const string& a, const string& b) {
  // no ':' at all
  { string t = GccMunge(a) + " " + GccMunge(b) + "\n"; DepfileParser p((DepfileParserOptions())); string e;
    if (p.Parse(&t, &e)) return "depfile without ':' accepted"; }
  // a dependency reappears as a target that has its own dependencies
  if (a != b) { string t = "out.o: " + GccMunge(a) + "\n" + EscapeColons(GccMunge(a)) + ": " + GccMunge(b) + "\n"; DepfileParser p((DepfileParserOptions())); string e;
    if (p.Parse(&t, &e)) return "dependency with its own dependencies accepted: <" + t + ">"; }
  // ... also when it is one of several targets of that rule, before or after a target not seen so far
  if (a != b) for (int order = 0; order < 2; order++) {
    string ta = EscapeColons(GccMunge(a));
    string t = "out.o: " + GccMunge(a) + " first.h\n" + (order ? "unseen.o " + ta : ta + " unseen.o") + ": " + GccMunge(b) + "\n";
    DepfileParser p((DepfileParserOptions())); string e;
    if (p.Parse(&t, &e)) return "dependency with its own dependencies accepted among several targets: <" + t + ">"; }
  return "";
}
}  // namespace c15
