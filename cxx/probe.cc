// Probe server: reads one JSON request per line on stdin, executes each request in a forked child (no state
// leaks between cases; crashes, sanitizer reports, Fatal()/exit() and hangs become results), and writes
//   R <json>\n      zero or more result lines produced by the child
//   E <json>\n      one end line: {"died": null | {"signal": n} | {"exit": n} | {"timeout": true}, "stderr": "..."}
#include <fcntl.h>
#include <poll.h>
#include <signal.h>
#include <sys/time.h>
#include <sys/wait.h>
#include <unistd.h>

#include <iostream>

#include "probe_sim.h"
#include "probe_misc.h"

static int g_result_fd = -1;

void EmitResult(const json& j) {
  string s = "R " + j.dump(-1, ' ', false, json::error_handler_t::replace) + "\n";
  size_t off = 0;
  while (off < s.size()) {
    ssize_t n = write(g_result_fd, s.data() + off, s.size() - off);
    if (n < 0) { if (errno == EINTR) continue; _exit(3); }
    off += (size_t)n;
  }
}

static void Dispatch(const json& req) {
  string kind = req.value("kind", "");
  if (kind == "sim") HandleSim(req);
  else if (!HandleMisc(kind, req)) EmitResult({{"error", "unknown kind " + kind}});
}

// resident set of the request's child in MiB (0 when it cannot be read)
static long ChildRssMb(pid_t pid) {
  char path[64]; snprintf(path, sizeof path, "/proc/%d/statm", (int)pid);
  FILE* f = fopen(path, "r"); if (!f) return 0;
  long size = 0, rss = 0; int n = fscanf(f, "%ld %ld", &size, &rss); fclose(f);
  if (n != 2) return 0;
  return rss * (sysconf(_SC_PAGESIZE) / 1024) / 1024;
}

static int64_t NowMs() { timeval tv; gettimeofday(&tv, nullptr); return (int64_t)tv.tv_sec * 1000 + tv.tv_usec / 1000; }

int main(int argc, char** argv) {
  signal(SIGPIPE, SIG_IGN);
  std::ios::sync_with_stdio(false);
  char errpath[] = "/dev/shm/probe-stderr-XXXXXX";
  int errfd = mkstemp(errpath);
  if (errfd < 0) { strcpy(errpath, "/tmp/probe-stderr-XXXXXX"); errfd = mkstemp(errpath); }
  unlink(errpath);
  string line;
  while (std::getline(std::cin, line)) {
    if (line.empty()) continue;
    json req;
    try { req = json::parse(line); } catch (std::exception& e) {
      printf("E {\"died\": null, \"stderr\": \"bad request json\"}\n"); fflush(stdout); continue;
    }
    int timeout_ms = req.value("timeout_ms", 20000);
    long rss_limit_mb = req.value("rss_limit_mb", getenv("VERIF_PROBE_RSS_MB") ? atol(getenv("VERIF_PROBE_RSS_MB")) : 6144L);
    int pfd[2];
    if (pipe(pfd) < 0) { perror("pipe"); return 1; }
    if (ftruncate(errfd, 0) < 0) {}
    lseek(errfd, 0, SEEK_SET);
    fflush(nullptr);
    pid_t pid = fork();
    if (pid == 0) {
      close(pfd[0]);
      g_result_fd = pfd[1];
      dup2(errfd, 2);
      int devnull = open("/dev/null", O_RDWR);
      dup2(devnull, 0); dup2(devnull, 1);
      setpgid(0, 0);
      Dispatch(req);
      fflush(nullptr);
      _exit(0);
    }
    close(pfd[1]);
    // relay child output to stdout until EOF or timeout
    int64_t deadline = NowMs() + timeout_ms;
    bool timed_out = false, rss_exceeded = false;
    char buf[1 << 16];
    for (;;) {
      int64_t left = deadline - NowMs();
      if (left <= 0) { timed_out = true; break; }
      pollfd p = {pfd[0], POLLIN, 0};
      int r = poll(&p, 1, (int)(left < 250 ? left : 250));
      if (r < 0) { if (errno == EINTR) continue; break; }
      if (r == 0) {
        // memory guard: a request that needs more than the limit is stopped and reported, it must not take the machine down
        if (ChildRssMb(pid) > rss_limit_mb) { rss_exceeded = true; break; }
        continue;
      }
      ssize_t n = read(pfd[0], buf, sizeof buf);
      if (n <= 0) break;
      fwrite(buf, 1, (size_t)n, stdout);
    }
    close(pfd[0]);
    if (timed_out || rss_exceeded) { kill(-pid, SIGKILL); kill(pid, SIGKILL); }
    int st = 0;
    waitpid(pid, &st, 0);
    kill(-pid, SIGKILL);  // stray grandchildren, if any
    json end = {{"died", nullptr}};
    if (timed_out) end["died"] = {{"timeout", true}};
    else if (rss_exceeded) end["died"] = {{"rss_limit_mb", rss_limit_mb}};
    else if (WIFSIGNALED(st)) end["died"] = {{"signal", WTERMSIG(st)}};
    else if (WIFEXITED(st) && WEXITSTATUS(st) != 0) end["died"] = {{"exit", WEXITSTATUS(st)}};
    // stderr of the child
    string err;
    off_t sz = lseek(errfd, 0, SEEK_END);
    if (sz > 0) {
      size_t want = sz > 8000 ? 8000 : (size_t)sz;
      err.resize(want);
      if (pread(errfd, &err[0], want, sz > 8000 ? 0 : 0) < 0) err.clear();
    }
    end["stderr"] = err;
    // make sure the relayed data ended with a newline boundary
    printf("\nE %s\n", end.dump(-1, ' ', false, json::error_handler_t::replace).c_str());
    fflush(stdout);
  }
  return 0;
}
