// C13: arbitrary bytes as a depfile; every returned piece must lie inside the buffer and parsing must terminate.
#include "fuzz_ninja.h"
#include "depfile_parser.h"
extern "C" int LLVMFuzzerTestOneInput(const uint8_t* data, size_t size) {
  vstats::Exec(); ResetGlobals();
  string buf((const char*)data, size);
  DepfileParser p((DepfileParserOptions())); string err;
  bool ok = p.Parse(&buf, &err);
  if (ok) {
    vstats::Class("accepted"); if (!p.ins_.empty()) { vstats::NonTrivial(data, size); vstats::Sample(string((const char*)data, size)); }
    for (auto& o : p.outs_) if (o.str_ < buf.data() || o.str_ + o.len_ > buf.data() + buf.size()) vstats::Fail("depfile: output piece outside the buffer");
    for (auto& i : p.ins_) if (i.str_ < buf.data() || i.str_ + i.len_ > buf.data() + buf.size()) vstats::Fail("depfile: input piece outside the buffer");
  } else vstats::Class("rejected");
  return 0;
}
