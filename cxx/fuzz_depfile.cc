// C15 libFuzzer target, structure-aware: bytes -> lists of target and dependency names (any byte except NUL/CR/LF
// and the known-finding class D11) -> encode in the GCC or Clang dialect and a layout -> parse -> must read back
// exactly.  Names the dialect cannot carry are skipped (counted).
#include <fuzzer/FuzzedDataProvider.h>
#include "fuzz_common.h"
#include "ref_depfile.h"
using namespace c15;
static string TakeName(FuzzedDataProvider& f, bool target) {
  static const char* pieces[] = {"a", "b", "c", ".h", "/", " ", "\\", "#", "$", ":", "%", "~", "=", "+", "\xc3\xa9", "\xff", "(", ")", "&", "'", "\"", "-", "_", "@", "!", "{", "}", "[", "]", ",", "?", "0"};
  string s; int n = f.ConsumeIntegralInRange<int>(1, 8);
  for (int i = 0; i < n; i++) {
    if (f.ConsumeIntegralInRange<int>(0, 5) == 0) { unsigned char c = f.ConsumeIntegral<uint8_t>(); s += (char)c; }
    else s += pieces[f.ConsumeIntegralInRange<int>(0, 31)];
  }
  (void)target;
  return s;
}
extern "C" int LLVMFuzzerTestOneInput(const uint8_t* data, size_t size) {
  vstats::Exec();
  FuzzedDataProvider f(data, size);
  Case c; c.encoder = f.ConsumeIntegralInRange<int>(0, 1); c.layout = f.ConsumeIntegralInRange<int>(0, kLayouts - 1);
  int nt = f.ConsumeIntegralInRange<int>(1, 3), nd = f.ConsumeIntegralInRange<int>(0, 12);
  bool special = false;
  for (int i = 0; i < nt; i++) {
    string n = TakeName(f, true);
    if (!Representable(n) || InD11Class(n) || (n.find(':') != string::npos && n.find('\\') != string::npos)) { vstats::Class("skipped_name"); continue; }
    c.targets.push_back(n);
  }
  if (c.targets.empty()) c.targets.push_back("out.o");
  for (int i = 0; i < nd; i++) {
    string n = TakeName(f, false);
    if (!(Representable(n) || (RepresentableMidLine(n) && c.layout != 5 && c.layout != 6)) || InD11Class(n)) { vstats::Class("skipped_name"); continue; }
    bool clash = false; for (auto& t : c.targets) if (t == n) clash = true;
    if (clash) continue;
    if (n.find_first_of(" \\#$:%") != string::npos) special = true;
    c.deps.push_back(n);
  }
  if (!c.deps.empty() && !Representable(c.deps.back())) { c.deps.push_back("tail.h"); vstats::Class("dep_ending_in_even_backslashes"); }
  string r = Check(c);
  if (!r.empty()) vstats::Fail("C15 depfile round trip (encoder " + string(c.encoder ? "clang" : "gcc") + ", layout " + std::to_string(c.layout) + "): " + r);
  if (special) { string t = Encode(c); vstats::NonTrivial(t.data(), t.size()); vstats::Sample(t); }
  if (c.deps.size() >= 8) vstats::Class("deps>=8");
  vstats::Class(c.encoder ? "clang" : "gcc");
  return 0;
}
