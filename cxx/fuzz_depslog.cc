// C13: .ninja_deps from bytes. Mode 0: raw bytes. Mode 1: raw bytes behind a valid header. Mode 2: structure-aware:
// the bytes are decoded into records whose fields come from boundary sets (ids -1, 0, n-1, n, huge; sizes 0,4,8,
// unaligned; checksums right/wrong), so that framing stays valid while values go wrong.
#include "fuzz_ninja.h"
static void U32(string& s, uint32_t v) { s.append((const char*)&v, 4); }
extern "C" int LLVMFuzzerTestOneInput(const uint8_t* data, size_t size) {
  vstats::Exec(); ResetGlobals();
  if (size < 1) return 0;
  static string dir = [] { char t[] = "/dev/shm/fzdepsXXXXXX"; char* d = mkdtemp(t); return string(d ? d : "/tmp"); }();
  string path = dir + "/deps" + std::to_string(getpid());
  int mode = data[0] % 3;
  string content;
  if (mode == 0) content.assign((const char*)data + 1, size - 1);
  else { content = "# ninjadeps\n"; U32(content, 4); }
  if (mode == 1) content.append((const char*)data + 1, size - 1);
  if (mode == 2) {
    int npaths = 0; size_t i = 1;
    auto take = [&]() -> int { return i < size ? data[i++] : 0; };
    while (i < size) {
      int k = take();
      static const int ids[] = {0, 1, 2, -1, -2, 0x7ffffff0, 1000, 3};
      if (k & 1) {  // path record
        int len = 1 + (take() % 9); string p; for (int j = 0; j < len; j++) p += (char)('a' + (take() % 4));
        int variant = k >> 1 & 7;
        size_t pad = (4 - p.size() % 4) % 4;
        if (variant == 1) pad = 0; if (variant == 2) p.assign(p.size(), '\0');
        uint32_t chk = ~(uint32_t)npaths; if (variant == 3) chk ^= 1u << (take() % 32);
        U32(content, p.size() + pad + 4); content += p; content.append(pad, '\0'); U32(content, chk);
        if (variant != 3) ++npaths;
      } else {      // deps record
        int cnt = take() % 5; int variant = k >> 1 & 7;
        int out = variant == 1 ? ids[take() % 8] : (npaths ? take() % npaths : 0);
        uint32_t sz = 12 + 4 * cnt; if (variant == 2) sz = 4 * (take() % 3); if (variant == 3) sz += 1 + take() % 3;
        U32(content, sz | 0x80000000u);
        string body; U32(body, (uint32_t)out); U32(body, take()); U32(body, variant == 4 ? 0xffffffffu : 0);
        for (int j = 0; j < cnt; j++) U32(body, (uint32_t)(variant == 5 ? ids[take() % 8] : (npaths ? take() % npaths : 0)));
        body.resize(sz & 0x7fffffff, '\1'); content += body;
      }
    }
  }
  FILE* f = fopen(path.c_str(), "wb"); fwrite(content.data(), 1, content.size(), f); fclose(f);
  try {
    State state; DepsLog dl; string err;
    LoadStatus st = dl.Load(path, &state, &err);
    if (st == LOAD_ERROR) vstats::Fail("deps log: LOAD_ERROR on arbitrary bytes: " + err);
    vstats::Class(mode == 2 ? "structured" : "raw");
    size_t have = 0;
    for (Node* n : dl.nodes()) { DepsLog::Deps* d = dl.GetDeps(n); if (d) { ++have; for (int k = 0; k < d->node_count; k++) (void)d->nodes[k]->path().size(); } dl.GetFirstReverseDepsNode(n); }
    if (have) { vstats::NonTrivial(data, size); vstats::Sample("deps-entries=" + std::to_string(have) + " paths=" + std::to_string(dl.nodes().size()) + " mode=" + std::to_string(mode)); }
    string e2; dl.OpenForWrite(path, &e2);
    Node* o = state.GetNode("fz.o", 0); vector<Node*> ins{state.GetNode("fz.h", 0)};
    dl.RecordDeps(o, 1, ins);
    dl.Recompact(path, &e2); dl.Close();
    State s2; DepsLog d2; string e3;
    if (d2.Load(path, &s2, &e3) == LOAD_ERROR) vstats::Fail("reload after recompaction failed: " + e3);
    if (!e3.empty()) vstats::Fail("recompacted deps log is not clean on reload: " + e3);
  } catch (FatalExit&) { vstats::Class("fatal"); }
  unlink(path.c_str());
  return 0;
}
