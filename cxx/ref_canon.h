// M-canon: reference path normaliser written from the property text (C14), not from util.cc.
// split on '/', drop "" and ".", ".." pops the previous *name* (never a kept ".."), otherwise it is kept;
// a leading '/' is kept; nothing left => "." (or "/" for an absolute path).
#pragma once
#include <string>
#include <vector>
inline std::string RefCanon(const std::string& in) {
  if (in.empty()) return in;
  bool abs = in[0] == '/';
  std::vector<std::string> st;
  size_t i = 0;
  while (i <= in.size()) {
    size_t j = in.find('/', i);
    if (j == std::string::npos) j = in.size();
    std::string c = in.substr(i, j - i);
    i = j + 1;
    if (c.empty() || c == ".") continue;
    if (c == ".." && !st.empty() && st.back() != "..") { st.pop_back(); continue; }
    st.push_back(c);
  }
  std::string out = abs ? "/" : "";
  for (size_t k = 0; k < st.size(); k++) { if (k) out += '/'; out += st[k]; }
  if (out.empty()) out = ".";
  return out;
}
// Checks every C14 clause for one input; returns "" or a description of the broken clause.
#include "util.h"
#include <string.h>
inline std::string CheckCanon(const std::string& in, std::string* out_opt = nullptr) {
  // exact-size heap buffer (ASan sees any access outside [0,len)) with no NUL terminator
  size_t len = in.size();
  char* buf = new char[len ? len : 1];
  memcpy(buf, in.data(), len);
  uint64_t bits = 0xdeadbeef;
  size_t l2 = len;
  CanonicalizePath(buf, &l2, &bits);
  std::string got(buf, l2 <= len ? l2 : 0);
  bool toolong = l2 > len;
  delete[] buf;
  if (out_opt) *out_opt = got;
  if (toolong) return "output longer than input";
  if (len == 0) return got.empty() ? "" : "empty input changed";
  std::string want = RefCanon(in);
  if (got != want) return "got '" + got + "' want '" + want + "'";
  if (bits != 0) return "slash_bits != 0 on POSIX";
  // idempotence
  std::string again = got; uint64_t b2;
  CanonicalizePath(&again, &b2);
  if (again != got) return "not idempotent: '" + got + "' -> '" + again + "'";
  if (in[0] == '/' && got[0] != '/') return "leading slash lost";
  // std::string overload agrees with the buffer overload
  std::string s2 = in; CanonicalizePath(&s2, &b2);
  if (s2 != got) return "string overload differs: '" + s2 + "'";
  return "";
}
