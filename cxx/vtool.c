/* vtool: the "compiler" of the E2E engine. It computes the same content function as the SIM runner
 *   content(out) = hex(FNV1a64(key|variant|[rsp=<bytes>|]content(read1),content(read2),...)) "@" out
 * writes outputs atomically, a depfile or /showIncludes lines for its hidden reads, and appends start/end records to
 * the trace file named by $VERIF_TRACE.  Faults and delays are injected through the environment so that the command
 * line (and with it ninja's command hash) does not change:
 *   VERIF_FAULTS="key:code:touch,..."   VERIF_SLEEP="key:ms,..."   VERIF_HOLD="key:fifo,..." (blocks until the fifo is opened for writing)  VERIF_SYMLOOP="key:1,..."
 *   VERIF_PRINT="key:hex,..." (bytes written to stdout in VERIF_CHUNKS pieces)
 * usage: vtool run --id KEY --variant V [--restat] [--reads f...] [--hidden f...] [--depfile F --layout N] [--msvc]
 *              [--rsp F] [--literal OUT HEX] --out o...
 */
#define _GNU_SOURCE
#include <errno.h>
#include <fcntl.h>
#include <signal.h>
#include <stdint.h>
#include <stdio.h>
#include <stdlib.h>
#include <string.h>
#include <sys/file.h>
#include <sys/stat.h>
#include <time.h>
#include <unistd.h>

#define MAXN 64
static char* slurp(const char* p, size_t* n) {
  FILE* f = fopen(p, "rb"); if (!f) return NULL;
  size_t cap = 4096, len = 0; char* b = malloc(cap);
  for (;;) { if (len == cap) { cap *= 2; b = realloc(b, cap); } size_t r = fread(b + len, 1, cap - len, f); if (!r) break; len += r; }
  fclose(f); *n = len; return b;
}
static uint64_t fnv(uint64_t h, const char* d, size_t n) { for (size_t i = 0; i < n; i++) { h ^= (unsigned char)d[i]; h *= 1099511628211ull; } return h; }
static long long now_ns(void) { struct timespec ts; clock_gettime(CLOCK_MONOTONIC, &ts); return (long long)ts.tv_sec * 1000000000ll + ts.tv_nsec; }
static const char* envlookup(const char* var, const char* key) {
  /* "key:value,key:value" -> value of key (static buffer) */
  static char buf[8192]; const char* e = getenv(var); if (!e) return NULL;
  size_t kl = strlen(key);
  while (*e) {
    const char* c = strchr(e, ','); size_t l = c ? (size_t)(c - e) : strlen(e);
    if (l > kl && !strncmp(e, key, kl) && e[kl] == ':') { size_t vl = l - kl - 1; if (vl >= sizeof buf) vl = sizeof buf - 1; memcpy(buf, e + kl + 1, vl); buf[vl] = 0; return buf; }
    if (!c) break; e = c + 1;
  }
  return NULL;
}
static void hexs(FILE* f, const char* d, size_t n) { for (size_t i = 0; i < n; i++) fprintf(f, "%02x", (unsigned char)d[i]); }
static void trace(const char* line) {
  const char* t = getenv("VERIF_TRACE"); if (!t) return;
  int fd = open(t, O_WRONLY | O_APPEND | O_CREAT, 0644); if (fd < 0) return;
  flock(fd, LOCK_EX); if (write(fd, line, strlen(line)) < 0) {} flock(fd, LOCK_UN); close(fd);
}
static int dir_exists_for(const char* path) {
  char b[4096]; snprintf(b, sizeof b, "%s", path); char* s = strrchr(b, '/'); if (!s || s == b) return 1; *s = 0;
  struct stat st; return stat(b, &st) == 0 && S_ISDIR(st.st_mode);
}
static int write_atomic(const char* path, const char* data, size_t n) {
  char tmp[4200]; snprintf(tmp, sizeof tmp, "%s.vtmp%d", path, (int)getpid());
  FILE* f = fopen(tmp, "wb"); if (!f) return -1;
  fwrite(data, 1, n, f); fclose(f);
  return rename(tmp, path);
}
static int unhex(const char* h, char* out) { int n = 0; for (; h[0] && h[1]; h += 2) { unsigned v; sscanf(h, "%2x", &v); out[n++] = (char)v; } return n; }

/* VERIF_ONSIGNAL="key:1,...": like a tool that flushes what it has when it is told to stop, the command writes a
 * partial first output (in place, not atomically) from its signal handler and exits with the interrupt status */
static const char* g_sig_out; static int g_sig_slow;
static void on_signal(int sig) {
  (void)sig;
  /* "key:2": a tool that takes its time to wind down before it flushes (ninja has to wait for it before it looks at the outputs) */
  if (g_sig_slow) { struct timespec ts = {0, 300000000l}; nanosleep(&ts, NULL); }
  if (g_sig_out) { int fd = open(g_sig_out, O_WRONLY | O_CREAT | O_TRUNC, 0644); if (fd >= 0) { if (write(fd, "partial:signal", 14) < 0) {} close(fd); } }
  _exit(130);
}

int main(int argc, char** argv) {
  if (argc < 2 || strcmp(argv[1], "run")) { fprintf(stderr, "usage: vtool run ...\n"); return 2; }
  const char *id = "", *variant = "", *depfile = NULL, *rsp = NULL; char* dftargets = NULL;
  const char *outs[MAXN], *reads[MAXN], *hidden[MAXN], *lit_out[MAXN], *lit_hex[MAXN];
  int nout = 0, nread = 0, nhid = 0, nlit = 0, restat = 0, msvc = 0, layout = 0;
  for (int i = 2; i < argc; i++) {
    if (!strcmp(argv[i], "--id")) id = argv[++i];
    else if (!strcmp(argv[i], "--variant")) variant = argv[++i];
    else if (!strcmp(argv[i], "--restat")) restat = 1;
    else if (!strcmp(argv[i], "--msvc")) msvc = 1;
    else if (!strcmp(argv[i], "--depfile")) depfile = argv[++i];
    else if (!strcmp(argv[i], "--depfile-targets")) { dftargets = strdup(argv[++i]); for (char* c = dftargets; *c; c++) if (*c == ',') *c = ' '; }
    else if (!strcmp(argv[i], "--layout")) layout = atoi(argv[++i]);
    else if (!strcmp(argv[i], "--rsp")) rsp = argv[++i];
    else if (!strcmp(argv[i], "--literal")) { lit_out[nlit] = argv[++i]; lit_hex[nlit++] = argv[++i]; }
    else if (!strcmp(argv[i], "--reads")) { while (i + 1 < argc && strncmp(argv[i + 1], "--", 2)) reads[nread++] = argv[++i]; }
    else if (!strcmp(argv[i], "--hidden")) { while (i + 1 < argc && strncmp(argv[i + 1], "--", 2)) hidden[nhid++] = argv[++i]; }
    else if (!strcmp(argv[i], "--out")) { while (i + 1 < argc && strncmp(argv[i + 1], "--", 2)) outs[nout++] = argv[++i]; }
  }
  /* --- start record: what the world looks like when the command starts */
  struct stat lk; long long lock_ns = 0;
  if (stat(".ninja_lock", &lk) == 0) lock_ns = (long long)lk.st_mtim.tv_sec * 1000000000ll + lk.st_mtim.tv_nsec;
  int dirs_ok = 1; for (int i = 0; i < nout; i++) dirs_ok &= dir_exists_for(outs[i]); if (depfile) dirs_ok &= dir_exists_for(depfile);
  size_t rspn = 0; char* rspc = rsp ? slurp(rsp, &rspn) : NULL;
  {
    char* line = NULL; size_t ln = 0; FILE* m = open_memstream(&line, &ln);
    fprintf(m, "{\"ev\":\"start\",\"edge\":\"%s\",\"t\":%lld,\"pid\":%d,\"lock_mtime\":%lld,\"dirs_ok\":%s,\"rsp_exists\":%s,\"rsp\":\"", id, now_ns(), (int)getpid(), lock_ns,
            dirs_ok ? "true" : "false", rspc ? "true" : "false");
    if (rspc) hexs(m, rspc, rspn);
    fprintf(m, "\",\"argv\":[");
    for (int i = 0; i < argc; i++) { fprintf(m, "%s\"", i ? "," : ""); hexs(m, argv[i], strlen(argv[i])); fprintf(m, "\""); }
    fprintf(m, "]}\n"); fclose(m); trace(line); free(line);
  }
  /* VERIF_CLOSEOUT="key:1,...": the command detaches from ninja's pipe right away (like a tool that redirects or closes
   * its stdout/stderr) and goes on working: ninja sees end-of-file long before the process exits */
  if (envlookup("VERIF_CLOSEOUT", id) && !msvc) {
    int nfd = open("/dev/null", O_WRONLY);
    if (nfd >= 0) { dup2(nfd, 1); dup2(nfd, 2); if (nfd > 2) close(nfd); }
  }
  /* --- snapshot the reads now (a command is a function of what it reads at start) */
  uint64_t h = 1469598103934665603ull;
  h = fnv(h, id, strlen(id)); h = fnv(h, "|", 1); h = fnv(h, variant, strlen(variant)); h = fnv(h, "|", 1);
  if (rsp) { h = fnv(h, "rsp=", 4); if (rspc) h = fnv(h, rspc, rspn); else h = fnv(h, "<norsp>", 7); h = fnv(h, "|", 1); }
  int missing = 0;
  for (int i = 0; i < nread; i++) {
    size_t n; char* c = slurp(reads[i], &n);
    if (!c) { missing = 1; h = fnv(h, "<missing>,", 10); } else { h = fnv(h, c, n); h = fnv(h, ",", 1); free(c); }
  }
  if (envlookup("VERIF_ONSIGNAL", id) && nout) {
    g_sig_out = outs[0]; g_sig_slow = atoi(envlookup("VERIF_ONSIGNAL", id)) == 2;
    signal(SIGINT, on_signal); signal(SIGTERM, on_signal); signal(SIGHUP, on_signal);
  }
  /* --- delays / rendez-vous */
  const char* hold = envlookup("VERIF_HOLD", id);
  if (hold) { char p[4096]; snprintf(p, sizeof p, "%s", hold); int fd = open(p, O_RDONLY); if (fd >= 0) { char b; if (read(fd, &b, 1) < 0) {} close(fd); } }
  const char* sl = envlookup("VERIF_SLEEP", id);
  if (sl) { long ms = atol(sl); struct timespec ts = {ms / 1000, (ms % 1000) * 1000000l}; nanosleep(&ts, NULL); }
  /* --- output bytes for the terminal */
  const char* pr = envlookup("VERIF_PRINT", id);
  if (pr) {
    char* hexcopy = strdup(pr); char* buf = malloc(strlen(hexcopy) / 2 + 1); int n = unhex(hexcopy, buf);
    int chunks = getenv("VERIF_CHUNKS") ? atoi(getenv("VERIF_CHUNKS")) : 1; if (chunks < 1) chunks = 1;
    int per = (n + chunks - 1) / chunks, off = 0;
    while (off < n) { int k = n - off < per ? n - off : per; if (write(1, buf + off, k) < 0) {} off += k; if (off < n) usleep(3000); }
  }
  /* --- faults */
  int fail = 0, touch = 0;
  const char* fl = envlookup("VERIF_FAULTS", id);
  if (fl) { fail = atoi(fl); const char* c = strchr(fl, ':'); touch = c && atoi(c + 1); }
  if (missing && !fail) { fail = 1; touch = 0; }
  /* --- write */
  char wrote[8192] = ""; int first = 1;
  if (!fail || touch) {
    for (int i = 0; i < nout; i++) {
      char content[8192]; int cl;
      int lit = -1; for (int k = 0; k < nlit; k++) if (!strcmp(lit_out[k], outs[i])) lit = k;
      if (lit >= 0 && !fail) cl = unhex(lit_hex[lit], content);
      else cl = snprintf(content, sizeof content, "%s%016llx@%s", fail ? "garbage:" : "", (unsigned long long)h, outs[i]);
      if (restat && !fail) { size_t n; char* old = slurp(outs[i], &n); int same = old && n == (size_t)cl && !memcmp(old, content, n); free(old); if (same) continue; }
      if (write_atomic(outs[i], content, cl) != 0) { fprintf(stderr, "vtool: cannot write %s: %s\n", outs[i], strerror(errno)); return 98; }
      snprintf(wrote + strlen(wrote), sizeof wrote - strlen(wrote), "%s\"%s\"", first ? "" : ",", outs[i]); first = 0;
    }
    if (depfile && !msvc) {
      char d[16384]; int dl = 0;
      const char* t = dftargets ? dftargets : outs[0];
      if (layout == 1) { dl += snprintf(d + dl, sizeof d - dl, "%s: \\\n", t); for (int i = 0; i < nhid; i++) dl += snprintf(d + dl, sizeof d - dl, "  %s \\\n", hidden[i]); dl += snprintf(d + dl, sizeof d - dl, "\n"); }
      else if (layout == 2) { dl += snprintf(d + dl, sizeof d - dl, "%s:", t); for (int i = 0; i < nhid; i++) dl += snprintf(d + dl, sizeof d - dl, " %s", hidden[i]); dl += snprintf(d + dl, sizeof d - dl, "\r\n"); for (int i = 0; i < nhid; i++) dl += snprintf(d + dl, sizeof d - dl, "%s:\r\n", hidden[i]); }
      else if (layout == 3) { for (int i = 0; i < nhid; i++) dl += snprintf(d + dl, sizeof d - dl, "%s: %s\n", t, hidden[i]); if (!nhid) dl += snprintf(d + dl, sizeof d - dl, "%s:\n", t); }
      else { dl += snprintf(d + dl, sizeof d - dl, "%s:", t); for (int i = 0; i < nhid; i++) dl += snprintf(d + dl, sizeof d - dl, " %s", hidden[i]); dl += snprintf(d + dl, sizeof d - dl, "\n"); }
      write_atomic(depfile, d, dl);
    }
  }
  /* VERIF_SYMLOOP="key:1,...": the command leaves its first output as a link to itself, so that ninja's stat() of it
   * fails with an error other than "does not exist" */
  if (envlookup("VERIF_SYMLOOP", id) && nout) {
    const char* b = strrchr(outs[0], '/'); b = b ? b + 1 : outs[0];
    unlink(outs[0]);
    if (symlink(b, outs[0]) != 0) {}
  }
  if (msvc) for (int i = 0; i < nhid; i++) printf("Note: including file: %s\n", hidden[i]);
  fflush(stdout);
  {
    char line[16384];
    snprintf(line, sizeof line, "{\"ev\":\"finish\",\"edge\":\"%s\",\"t\":%lld,\"pid\":%d,\"status\":%d,\"wrote\":[%s]}\n", id, now_ns(), (int)getpid(), fail, wrote);
    trace(line);
  }
  /* VERIF_BIGPRINT="key:n": as its very last action the command writes n/6 numbered lines between its tags in one go
   * and exits at once: more than ninja reads in one piece is still in the pipe when the hang-up arrives */
  const char* bp = envlookup("VERIF_BIGPRINT", id);
  if (bp) {
    long n = atol(bp) / 6; size_t cap = (size_t)n * 6 + 2 * strlen(id) + 16; char* b = malloc(cap); size_t l = 0;
    l += snprintf(b + l, cap - l, "<%s>", id);
    for (long i = 0; i < n; i++) l += snprintf(b + l, cap - l, "%05ld\n", i % 100000);
    l += snprintf(b + l, cap - l, "</%s>\n", id);
    /* odd n: ninja does not get the CPU while the command writes and exits (a loaded machine, owned by the harness):
     * it is stopped now and continued 150 ms later by a detached helper that holds none of the pipe's descriptors */
    if (atol(bp) % 2) {
      pid_t sh = getppid(), nj = 0; char pth[64], st[512]; snprintf(pth, sizeof pth, "/proc/%d/stat", (int)sh);
      FILE* f = fopen(pth, "r");
      if (f) { if (fgets(st, sizeof st, f)) { char* r = strrchr(st, ')'); int pp = 0; char c; if (r && sscanf(r + 1, " %c %d", &c, &pp) == 2) nj = pp; } fclose(f); }
      /* with `exec vtool` the shell is gone and the parent is ninja itself */
      { char cm[64] = ""; snprintf(pth, sizeof pth, "/proc/%d/comm", (int)sh); FILE* g = fopen(pth, "r"); if (g) { if (fgets(cm, sizeof cm, g)) {} fclose(g); }
        if (!strncmp(cm, "ninja", 5)) nj = sh; }
      if (nj > 1) {
        pid_t h = fork();
        if (h == 0) { setsid(); for (int fd = 0; fd < 64; fd++) close(fd); usleep(150000); kill(nj, SIGCONT); _exit(0); }
        if (h > 0) kill(nj, SIGSTOP);
      }
    }
    size_t off = 0; while (off < l) { ssize_t w = write(1, b + off, l - off); if (w <= 0) break; off += (size_t)w; }
  }
  return fail;
}
