// C13: arbitrary bytes as a dyndep file for a small fixed family of manifests (first byte selects), loaded through
// DyndepLoader and then used by a dry-run build.
#include "fuzz_ninja.h"
extern "C" int LLVMFuzzerTestOneInput(const uint8_t* data, size_t size) {
  vstats::Exec(); ResetGlobals();
  if (size < 1) return 0;
  static const char* manifests[] = {
    "rule r\n  command = c\nbuild out: r in || dd\n  dyndep = dd\n",
    "rule r\n  command = c\n  dyndep = dd\nbuild out: r in || dd\nbuild out2: r in2 | dd\n",
    "rule r\n  command = c\nrule g\n  command = g\nbuild dd: g ddin\nbuild out: r in || dd\n  dyndep = dd\nbuild in: r src\n",
    "rule r\n  command = c\nbuild out | imp: r in || dd\n  dyndep = dd\nbuild other: r out\n"};
  VFS fs; fs.files["build.ninja"] = {1, manifests[data[0] & 3]};
  fs.files["dd"] = {2, string((const char*)data + 1, size - 1)};
  for (const char* f : {"in", "in2", "src", "ddin"}) fs.files[f] = {3, "x"};
  try {
    State state; string err; ManifestParser parser(&state, &fs);
    if (!parser.Load("build.ninja", &err)) return 0;
    DyndepLoader loader(&state, &fs);
    Node* dd = state.LookupNode("dd");
    DyndepFile ddf;
    bool ok = loader.LoadDyndeps(dd, &ddf, &err);
    vstats::Class(ok ? "accepted" : "rejected");
    if (ok) { vstats::NonTrivial(data, size); vstats::Sample(string((const char*)data + 1, size - 1)); }
    // and through the builder (scan-time load)
    State s2; ManifestParser p2(&s2, &fs); p2.Load("build.ninja", &err);
    BuildConfig cfg; cfg.verbosity = BuildConfig::QUIET; cfg.dry_run = true;
    json trace = json::array(); int seq = 0; RecStatus st; st.trace = &trace; st.seq = &seq;
    BuildLog bl; DepsLog dl; Builder b(&s2, cfg, &bl, &dl, &fs, &st, 0);
    string derr; bool good = true;
    for (Node* t : s2.DefaultNodes(&derr)) { string terr; if (!b.AddTarget(t, &terr) && !terr.empty()) { good = false; break; } }
    if (good && !b.AlreadyUpToDate()) { string berr; b.Build(&berr); }
  } catch (FatalExit&) { vstats::Class("fatal"); }
  return 0;
}
