// Token-alphabet enumerator: calls a C13 target's LLVMFuzzerTestOneInput on EVERY sequence of 0..N tokens
// (tokens from a file, one per line, \n \t \0 \\ \xHH escapes), optionally behind a fixed prefix. The target's own
// oracle (sanitizers, vstats::Fail) decides; the last input is kept in a file so that a crash is reproducible.
#include <stdint.h>
#include <stdio.h>
#include <stdlib.h>
#include <string.h>
#include <string>
#include <vector>
#include <signal.h>
#include <unistd.h>
extern "C" int LLVMFuzzerTestOneInput(const uint8_t* data, size_t size);
extern "C" void __sanitizer_set_death_callback(void (*cb)(void));
static const char* g_cur; static size_t g_cur_size; static const char* g_last_path;
static void DumpCurrent() {
  if (!g_last_path || !g_cur) return;
  FILE* lf = fopen(g_last_path, "wb"); if (lf) { fwrite(g_cur, 1, g_cur_size, lf); fclose(lf); }
}
static void OnSignal(int sig) { DumpCurrent(); _exit(100 + sig); }
static std::string Unescape(const std::string& s) {
  std::string o;
  for (size_t i = 0; i < s.size(); i++) {
    if (s[i] != '\\' || i + 1 >= s.size()) { o += s[i]; continue; }
    char c = s[++i];
    if (c == 'n') o += '\n'; else if (c == 't') o += '\t'; else if (c == '0') o += '\0'; else if (c == 'r') o += '\r'; else if (c == '\\') o += '\\';
    else if (c == 'x' && i + 2 < s.size()) { o += (char)strtol(s.substr(i + 1, 2).c_str(), nullptr, 16); i += 2; }
    else o += c;
  }
  return o;
}
int main(int argc, char** argv) {
  if (argc < 6) return 2;
  std::vector<std::string> toks; char line[4096];
  FILE* f = fopen(argv[1], "r"); while (fgets(line, sizeof line, f)) { std::string l(line); if (!l.empty() && l.back() == '\n') l.pop_back(); toks.push_back(Unescape(l)); } fclose(f);
  int N = atoi(argv[2]), nparts = atoi(argv[3]), part = atoi(argv[4]);
  std::string prefix = Unescape(argv[5]);
  g_last_path = getenv("VERIF_LAST_INPUT");
  __sanitizer_set_death_callback(DumpCurrent);
  signal(SIGILL, OnSignal); signal(SIGABRT, OnSignal); signal(SIGALRM, OnSignal);
  uint64_t count = 0, idx = 0; size_t T = toks.size();
  for (int n = 0; n <= N; n++) {
    uint64_t total = 1; for (int i = 0; i < n; i++) total *= T;
    for (uint64_t v = 0; v < total; v++, idx++) {
      if ((int)(idx % nparts) != part) continue;
      std::string in = prefix; uint64_t x = v;
      for (int i = 0; i < n; i++) { in += toks[x % T]; x /= T; }
      g_cur = in.data(); g_cur_size = in.size();
      alarm(20);   // a single input that runs for 20 s is a hang
      LLVMFuzzerTestOneInput((const uint8_t*)in.data(), in.size());
      ++count;
    }
  }
  printf("{\"evaluations\": %llu}\n", (unsigned long long)count);
  return 0;
}
